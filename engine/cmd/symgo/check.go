package main

func check(args []string) int    { return 2 }
func replayCmd(args []string) int { return 2 }
