package main

import (
	"bytes"
	"encoding/json"
	"flag"
	"fmt"
	"os"
	"os/exec"
	"path/filepath"
	"sort"
	"strings"
	"time"

	"verif/engine/symgo"
)

type tierSpec struct {
	Bounds   map[string]int `json:"bounds"`
	MaxPaths int            `json:"max_paths"`
}

type harnessSpec struct {
	Pkg       string   `json:"pkg"`
	Func      string   `json:"func"`
	MustReach []string `json:"must_reach"`
	Quick     tierSpec `json:"quick"`
	Thorough  tierSpec `json:"thorough"`
	MapOrder  bool     `json:"map_order"`
	Threads   int      `json:"threads"`
	Switches  *int     `json:"switches"` // pre-emption bound (nil = 6)
	MaxSteps  int64    `json:"max_steps"`
	About     string   `json:"about"`
	OnlyTier  string   `json:"only_tier"` // run this entry only in the named tier
}

type checkSpec struct {
	Patterns    []string      `json:"patterns"`
	Harnesses   []harnessSpec `json:"harnesses"`
	Assumptions []string      `json:"assumptions"`
	Outside     []string      `json:"outside_the_claim"`
	Explanation string        `json:"explanation"`
}

type knownFinding struct {
	Property  string            `json:"property"`
	Status    string            `json:"status"` // open | fixed
	Harness   string            `json:"harness"`
	Label     string            `json:"label"`
	Signature map[string]string `json:"signature"` // draw label -> value (decimal or literal)
	What      string            `json:"what"`
	Commit    string            `json:"commit,omitempty"`
}

type replayFile struct {
	Property string            `json:"property"`
	Pkg      string            `json:"pkg"`
	Func     string            `json:"func"`
	Label    string            `json:"label"`
	Detail   string            `json:"detail"`
	Draws    []*symgo.Draw     `json:"draws"`
	Bounds   map[string]int    `json:"bounds"`
	Env      map[string]string `json:"env"`
	Prefix   []int             `json:"prefix"`
}

func pkgDir(importPath string) string {
	rel := strings.TrimPrefix(importPath, "package-operator.run")
	return filepath.Join(repoDir(), rel)
}

func harnessOverlay() map[string]string {
	m := map[string]string{}
	root := verifDir() + "/harness"
	filepath.Walk(root, func(path string, info os.FileInfo, err error) error {
		if err != nil || info.IsDir() {
			return nil
		}
		rel, _ := filepath.Rel(root, path)
		m[filepath.Join(repoDir(), rel)] = path
		return nil
	})
	return m
}

// nativeReplay runs the harness natively with the draws of the counterexample. It returns the labels of the
// assertions that failed natively, whether the run panicked, and raw output.
func nativeReplay(rf *replayFile, scriptPath string, pkgName string) (failed []string, panicked bool, mismatch []string, assumeFailed bool, out string, err error) {
	dir := pkgDir(rf.Pkg)
	tmp, err := os.MkdirTemp("", "verif-replay-")
	if err != nil {
		return nil, false, nil, false, "", err
	}
	defer os.RemoveAll(tmp)
	testFile := filepath.Join(tmp, "zz_verif_replay_test.go")
	src := fmt.Sprintf(`//go:build verif

package %s

import (
	"testing"

	"package-operator.run/internal/verifrt"
)

func TestVerifReplay(t *testing.T) {
	verifrt.Reset()
	defer func() {
		if r := recover(); r != nil {
			if _, ok := r.(verifrt.AssumeFailed); ok {
				t.Log("VERIF-REPLAY assume-failed")
				return
			}
			t.Logf("VERIF-REPLAY panic: %%v", r)
			t.Fail()
		}
		for _, m := range verifrt.Mismatch {
			t.Logf("VERIF-REPLAY mismatch: %%s", m)
		}
		for _, l := range verifrt.Reached {
			t.Logf("VERIF-REPLAY reached: %%s", l)
		}
		for _, l := range verifrt.Failed {
			t.Logf("VERIF-REPLAY failed: %%s", l)
			t.Fail()
		}
	}()
	%s()
}
`, pkgName, rf.Func)
	if err := os.WriteFile(testFile, []byte(src), 0o644); err != nil {
		return nil, false, nil, false, "", err
	}
	ov := harnessOverlay()
	ov[filepath.Join(dir, "zz_verif_replay_test.go")] = testFile
	ovb, _ := json.Marshal(map[string]interface{}{"Replace": ov})
	ovPath := filepath.Join(tmp, "overlay.json")
	os.WriteFile(ovPath, ovb, 0o644)
	rel, _ := filepath.Rel(repoDir(), dir)
	cmd := exec.Command("go", "test", "-tags", "verif", "-vet=off", "-count=1", "-run", "^TestVerifReplay$", "-v",
		"-overlay", ovPath, "-timeout", "5m", "./"+rel+"/")
	cmd.Dir = repoDir()
	env := []string{}
	for _, e := range os.Environ() {
		if strings.HasPrefix(e, "GOFLAGS=") || strings.HasPrefix(e, "GOTOOLCHAIN=") || strings.HasPrefix(e, "GOSUMDB=") || strings.HasPrefix(e, "GOPROXY=") {
			continue
		}
		env = append(env, e)
	}
	env = append(env, "GOPROXY=off", "GOFLAGS=", "GOTOOLCHAIN=auto", "GOSUMDB=sum.golang.org", "VERIF_SCRIPT="+scriptPath)
	for k, v := range rf.Env {
		env = append(env, k+"="+v)
	}
	cmd.Env = env
	var buf bytes.Buffer
	cmd.Stdout = &buf
	cmd.Stderr = &buf
	runErr := cmd.Run()
	out = buf.String()
	ran := false
	for _, line := range strings.Split(out, "\n") {
		line = strings.TrimSpace(line)
		if strings.Contains(line, "=== RUN   TestVerifReplay") {
			ran = true
		}
		if k := strings.Index(line, "VERIF-REPLAY failed: "); k >= 0 {
			failed = append(failed, strings.TrimSpace(line[k+len("VERIF-REPLAY failed: "):]))
		}
		if strings.Contains(line, "VERIF-REPLAY panic: ") {
			panicked = true
		}
		if k := strings.Index(line, "VERIF-REPLAY mismatch: "); k >= 0 {
			mismatch = append(mismatch, line[k:])
		}
		if strings.Contains(line, "VERIF-REPLAY assume-failed") {
			assumeFailed = true
		}
	}
	if !ran {
		return nil, false, nil, false, out, fmt.Errorf("native replay did not run: %v", runErr)
	}
	return failed, panicked, mismatch, assumeFailed, out, nil
}

func drawValue(d *symgo.Draw) string {
	if d.Kind == "string" {
		return d.Str
	}
	if d.Kind == "int" && d.W == 64 {
		return fmt.Sprintf("%d", int64(d.Val))
	}
	if d.Kind == "int" && d.W == 32 {
		return fmt.Sprintf("%d", int32(uint32(d.Val)))
	}
	return fmt.Sprintf("%d", d.Val)
}

func matchesFinding(k knownFinding, prop, harness, label string, draws []*symgo.Draw) bool {
	if k.Property != prop || k.Status != "open" {
		return false
	}
	if k.Harness != "" && k.Harness != harness {
		return false
	}
	if k.Label != label {
		return false
	}
	for dl, want := range k.Signature {
		ok := false
		for _, d := range draws {
			if d.Label == dl && drawValue(d) == want {
				ok = true
			}
		}
		if !ok {
			return false
		}
	}
	return true
}

func check(args []string) int {
	fs := flag.NewFlagSet("check", flag.ExitOnError)
	tier := fs.String("tier", "", "quick|thorough")
	only := fs.String("harness", "", "run only this harness function")
	var id string
	if len(args) > 0 && !strings.HasPrefix(args[0], "-") {
		id = args[0]
		args = args[1:]
	}
	fs.Parse(args)
	if *tier == "" {
		*tier = os.Getenv("VERIF_TIER")
	}
	if *tier == "" {
		*tier = "quick"
	}
	seed := 0
	fmt.Sscanf(os.Getenv("VERIF_SEED"), "%d", &seed)
	start := time.Now()

	var specs map[string]checkSpec
	b, err := os.ReadFile(verifDir() + "/checks.json")
	if err != nil {
		fmt.Println("INCONCLUSIVE: cannot read checks.json:", err)
		return 2
	}
	if err := json.Unmarshal(b, &specs); err != nil {
		fmt.Println("INCONCLUSIVE: bad checks.json:", err)
		return 2
	}
	spec, ok := specs[id]
	if !ok {
		fmt.Println("INCONCLUSIVE: unknown property", id)
		return 2
	}
	var known struct {
		Findings []knownFinding `json:"findings"`
	}
	if kb, err := os.ReadFile(verifDir() + "/known_findings.json"); err == nil {
		json.Unmarshal(kb, &known)
	}

	e, err := loadEngine(spec.Patterns)
	if err != nil {
		fmt.Println("INCONCLUSIVE: harness or repository does not load/compile:")
		fmt.Println(err)
		writeEvidence(id, *tier, seed, spec, nil, nil, time.Since(start).Seconds(), 0, "load failed: "+err.Error())
		return 2
	}
	os.MkdirAll(verifDir()+"/replays", 0o755)

	exit := 0
	inconclusive := []string{}
	nativeBins := map[string]string{}
	valTmp, _ := os.MkdirTemp("", "verif-validate-")
	defer os.RemoveAll(valTmp)
	var results []*symgo.Result
	var hruns []harnessRun
	violations := 0
	knownPrinted := map[string]bool{}
	var crossCheck map[string]int
	for _, h := range spec.Harnesses {
		if *only != "" && h.Func != *only {
			continue
		}
		if h.OnlyTier != "" && h.OnlyTier != *tier {
			continue
		}
		f := e.FindFunc(h.Pkg, h.Func)
		if f == nil {
			inconclusive = append(inconclusive, "harness not found: "+h.Pkg+"."+h.Func)
			continue
		}
		ts := h.Quick
		if *tier == "thorough" {
			ts = h.Thorough
			if ts.Bounds == nil && ts.MaxPaths == 0 {
				ts = h.Quick
			}
		}
		e.MaxThreads = 1
		if h.Threads > 1 {
			e.MaxThreads = h.Threads
		}
		e.MaxSwitches = 6
		if h.Switches != nil {
			e.MaxSwitches = *h.Switches
		}
		e.MaxPaths = 400000
		if ts.MaxPaths > 0 {
			e.MaxPaths = ts.MaxPaths
		}
		e.MaxSteps = 3_000_000
		if h.MaxSteps > 0 {
			e.MaxSteps = h.MaxSteps
		}
		e.RecordUnsat = *tier == "thorough"
		res := e.Explore(f, symgo.Options{Bounds: ts.Bounds, MapOrder: h.MapOrder, MaxViolations: 40, Seed: int64(seed), Witnesses: 4 * validationRuns(*tier)})
		if e.RecordUnsat && len(res.UnsatQueries) > 0 {
			qs := make([]string, 0, len(res.UnsatQueries))
			for q := range res.UnsatQueries {
				qs = append(qs, q)
			}
			for _, other := range []string{"z3-new", "cvc5"} {
				if other == "cvc5" && len(qs) > 4000 {
					// cvc5's incremental mode keeps growing with the number of push/pop scopes: a sample bounds time and memory
					qs = qs[:4000]
				}
				agree, differ, rerr := symgo.Recheck(other, qs)
				if crossCheck == nil {
					crossCheck = map[string]int{}
				}
				crossCheck[other+".rechecked"] += len(qs)
				crossCheck[other+".agree_unsat"] += agree
				fmt.Printf("cross-solver re-check of %d distinct discharged obligations with %s: %d unsat, %d differ\n", len(qs), other, agree, len(differ))
				if rerr != nil {
					inconclusive = append(inconclusive, fmt.Sprintf("%s: cross-solver re-check with %s failed: %v", h.Func, other, rerr))
				} else if len(differ) > 0 {
					inconclusive = append(inconclusive, fmt.Sprintf("%s: %s disagrees with z3 on %d discharged obligation(s): %v", h.Func, other, len(differ), differ[:1]))
				}
			}
		}
		results = append(results, res)
		hr := harnessRun{Spec: h, Tier: ts, Res: res}
		fmt.Printf("harness %s: paths=%d completed=%d pruned=%d obligations=%d discharged=%d queries(sat/unsat/unknown)=%d/%d/%d solver=%.1fs wall=%.1fs\n",
			h.Func, res.Paths, res.Completed, res.Pruned, res.Obligations, res.Discharged, res.Solver.Sat, res.Solver.Unsat, res.Solver.Unknown,
			res.Solver.Time.Seconds(), res.WallSeconds)
		for reason, n := range res.Unsupported {
			inconclusive = append(inconclusive, fmt.Sprintf("%s: %d path(s) inconclusive: %s (first at decisions %v)", h.Func, n, reason, res.UnsupportedAt[reason]))
		}
		if res.Unknowns > 0 {
			inconclusive = append(inconclusive, fmt.Sprintf("%s: %d solver answers were unknown", h.Func, res.Unknowns))
		}
		if res.Solver.Errors > 0 {
			inconclusive = append(inconclusive, fmt.Sprintf("%s: %d solver error lines", h.Func, res.Solver.Errors))
		}
		if !res.Exhausted && len(res.Violations) == 0 {
			inconclusive = append(inconclusive, fmt.Sprintf("%s: exploration not exhausted (path budget %d)", h.Func, e.MaxPaths))
		}
		for _, l := range h.MustReach {
			if res.Reached[l] == 0 && len(res.Violations) == 0 {
				inconclusive = append(inconclusive, fmt.Sprintf("%s: vacuity witness %q not reachable (broken harness or changed code)", h.Func, l))
			}
		}
		// violations: replay natively, classify
		perLabel := map[string]int{}
		pkgName := f.Pkg.Pkg.Name()
		for _, v := range res.Violations {
			sigKey := v.Label
			matchedKnown := -1
			for ki, k := range known.Findings {
				if matchesFinding(k, id, h.Func, v.Label, v.Draws) {
					matchedKnown = ki
					break
				}
			}
			if matchedKnown >= 0 {
				sigKey = fmt.Sprintf("known-%d", matchedKnown)
			}
			if perLabel[sigKey] >= 2 {
				continue
			}
			perLabel[sigKey]++
			rf := &replayFile{Property: id, Pkg: h.Pkg, Func: h.Func, Label: v.Label, Detail: v.Detail, Draws: v.Draws, Bounds: ts.Bounds, Prefix: v.Prefix}
			name := fmt.Sprintf("%s-%s-%s-%d.json", id, h.Func, sanitizeFile(v.Label), perLabel[sigKey])
			path := filepath.Join(verifDir(), "replays", name)
			symgo.WriteJSON(path, rf)
			failed, panicked, mismatch, assumeFailed, out, rerr := nativeReplay(rf, path, pkgName)
			confirmed := false
			for _, l := range failed {
				if l == v.Label {
					confirmed = true
				}
			}
			if v.Label == "no-panic" && panicked {
				confirmed = true
			}
			hr.Replays = append(hr.Replays, replayOutcome{Label: v.Label, File: path, Confirmed: confirmed, NativeFailed: failed, Panicked: panicked})
			switch {
			case rerr != nil:
				inconclusive = append(inconclusive, fmt.Sprintf("%s: native replay of %s could not run: %v\n%s", h.Func, v.Label, rerr, tail(out, 30)))
			case !confirmed:
				inconclusive = append(inconclusive, fmt.Sprintf("ENGINE-MISMATCH %s: counterexample for %q does not reproduce natively (native failed=%v panicked=%v assumeFailed=%v mismatch=%v) replay=%s",
					h.Func, v.Label, failed, panicked, assumeFailed, mismatch, path))
			case matchedKnown >= 0:
				k := known.Findings[matchedKnown]
				if !knownPrinted[fmt.Sprint(matchedKnown)] {
					fmt.Printf("KNOWN-FINDING: property=%s %s\n", id, k.What)
					knownPrinted[fmt.Sprint(matchedKnown)] = true
				}
			default:
				violations++
				exit = 1
				fmt.Printf("VIOLATION property=%s replay=%s\n", id, path)
				fmt.Printf("  harness=%s assertion=%q %s\n", h.Func, v.Label, v.Detail)
				var ds []string
				for _, d := range v.Draws {
					ds = append(ds, d.Label+"="+drawValue(d))
				}
				fmt.Printf("  inputs: %s\n", strings.Join(ds, " "))
			}
		}
		// translator validation: random concrete scripts through the engine and through the native build
		if k := validationRuns(*tier); k > 0 && len(res.Violations) == 0 {
			if h.Threads > 1 {
				// native runs of scheduler harnesses repeat the scenario many times: fewer scripts
				k = (k + 2) / 3
				if len(res.Witnesses) > 2*k {
					res.Witnesses = res.Witnesses[:2*k]
				}
			}
			bin, ok := nativeBins[h.Pkg]
			if !ok {
				var funcs []string
				seenFn := map[string]bool{}
				for _, h2 := range spec.Harnesses {
					if h2.Pkg == h.Pkg && !seenFn[h2.Func] && e.FindFunc(h2.Pkg, h2.Func) != nil {
						funcs = append(funcs, h2.Func)
						seenFn[h2.Func] = true
					}
				}
				sub := filepath.Join(valTmp, sanitizeFile(h.Pkg))
				os.MkdirAll(sub, 0o755)
				var berr error
				bin, berr = buildNativeBinary(h.Pkg, pkgName, funcs, sub)
				if berr != nil {
					inconclusive = append(inconclusive, fmt.Sprintf("%s: %v", h.Func, berr))
				}
				nativeBins[h.Pkg] = bin
			}
			if bin != "" {
				t0 := time.Now()
				vr := validateHarness(e, f, h, ts, bin, k, int64(seed)+1, valTmp)
				validateWitnesses(&vr, res.Witnesses, h, ts, bin, valTmp)
				hr.Validation = &vr
				fmt.Printf("translator validation %s: %d/%d solver-produced path witnesses behave natively as the engine predicted; %d/%d random concrete scripts agree engine vs native (%d discarded by assumptions) (%.1fs)\n",
					h.Func, vr.WitAgree, vr.Witnesses, vr.Agree, vr.Runs, vr.Discarded, time.Since(t0).Seconds())
				for _, m := range vr.Mismatches {
					inconclusive = append(inconclusive, fmt.Sprintf("ENGINE-MISMATCH %s: concrete run differs between engine and native build: %s", h.Func, m))
				}
				for _, m := range vr.Problems {
					inconclusive = append(inconclusive, fmt.Sprintf("%s: translator validation could not run: %s", h.Func, m))
				}
			}
		}
		hruns = append(hruns, hr)
	}
	note := ""
	if exit == 0 && len(inconclusive) > 0 {
		exit = 2
		note = "inconclusive: " + strings.Join(inconclusive, "; ")
	}
	for _, m := range inconclusive {
		fmt.Println("INCONCLUSIVE:", m)
	}
	evidenceCross = crossCheck
	writeEvidence(id, *tier, seed, spec, hruns, e, time.Since(start).Seconds(), violations, note)
	if exit == 0 {
		if len(knownPrinted) > 0 {
			fmt.Printf("OK property=%s tier=%s: no violation other than the %d known finding(s) listed above; all other obligations discharged within the stated bounds\n", id, *tier, len(knownPrinted))
		} else {
			fmt.Printf("OK property=%s tier=%s: all obligations discharged within the stated bounds\n", id, *tier)
		}
	}
	return exit
}

var evidenceCross map[string]int

type replayOutcome struct {
	Label        string   `json:"assertion"`
	File         string   `json:"replay"`
	Confirmed    bool     `json:"reproduced_natively"`
	NativeFailed []string `json:"native_failed"`
	Panicked     bool     `json:"native_panicked"`
}

type harnessRun struct {
	Spec       harnessSpec
	Tier       tierSpec
	Res        *symgo.Result
	Replays    []replayOutcome
	Validation *validationResult
}

// validationRuns is the number of random concrete scripts per harness (VERIF_VALIDATE overrides; 0 disables).
func validationRuns(tier string) int {
	if v := os.Getenv("VERIF_VALIDATE"); v != "" {
		n := 0
		fmt.Sscanf(v, "%d", &n)
		return n
	}
	if tier == "thorough" {
		return 32
	}
	return 6
}

func sanitizeFile(s string) string {
	return strings.Map(func(r rune) rune {
		if (r >= 'a' && r <= 'z') || (r >= 'A' && r <= 'Z') || (r >= '0' && r <= '9') || r == '-' {
			return r
		}
		return '_'
	}, s)
}

func tail(s string, n int) string {
	lines := strings.Split(s, "\n")
	if len(lines) > n {
		lines = lines[len(lines)-n:]
	}
	return strings.Join(lines, "\n")
}

func writeEvidence(id, tier string, seed int, spec checkSpec, runs []harnessRun, e *symgo.Engine, wall float64, violations int, note string) {
	type hEv struct {
		Harness     string            `json:"harness"`
		About       string            `json:"about,omitempty"`
		Bounds      map[string]int    `json:"bounds"`
		Paths       int               `json:"paths"`
		Completed   int               `json:"paths_completed"`
		Pruned      int               `json:"paths_pruned_by_assumptions"`
		Inconcl     map[string]int    `json:"paths_inconclusive,omitempty"`
		Obligations int               `json:"obligations"`
		Discharged  int               `json:"discharged"`
		Queries     map[string]int    `json:"queries"`
		SolverS     float64           `json:"solver_s"`
		WallS       float64           `json:"wall_s"`
		Steps       int64             `json:"ssa_instructions_executed"`
		MaxDepth    int               `json:"max_decision_depth"`
		Exhausted   bool              `json:"exhausted"`
		Reached     map[string]int    `json:"vacuity_witnesses_reached"`
		Intrinsics  []string          `json:"intrinsics_hit"`
		Funcs       map[string]int    `json:"functions_encoded_ssa_instrs"`
		Replays     []replayOutcome   `json:"replays,omitempty"`
		MapOrder    bool              `json:"map_iteration_orders_explored,omitempty"`
		Threads     int               `json:"threads,omitempty"`
		Switches    *int              `json:"preemption_bound,omitempty"`
		Validation  *validationResult `json:"translator_validation,omitempty"`
	}
	cov := map[string]interface{}{}
	var hevs []hEv
	totalPaths, totalNontrivial, obl, dis := 0, 0, 0, 0
	var samples []interface{}
	validated, witnessed := 0, 0
	for _, r := range runs {
		res := r.Res
		h := hEv{Harness: r.Spec.Pkg + "." + r.Spec.Func, About: r.Spec.About, Bounds: r.Tier.Bounds, Paths: res.Paths, Completed: res.Completed,
			Pruned: res.Pruned, Obligations: res.Obligations, Discharged: res.Discharged,
			Queries: map[string]int{"sat": res.Solver.Sat, "unsat": res.Solver.Unsat, "unknown": res.Solver.Unknown, "error": res.Solver.Errors},
			SolverS: res.Solver.Time.Seconds(), WallS: res.WallSeconds, Steps: res.Steps, MaxDepth: res.MaxDepth, Exhausted: res.Exhausted,
			Reached: res.Reached, Funcs: res.Funcs, Replays: r.Replays, MapOrder: r.Spec.MapOrder, Threads: r.Spec.Threads, Switches: r.Spec.Switches, Validation: r.Validation}
		if r.Validation != nil {
			validated += r.Validation.Agree
			witnessed += r.Validation.WitAgree
		}
		if len(res.Unsupported) > 0 {
			h.Inconcl = res.Unsupported
		}
		for k := range res.Notes {
			if strings.HasPrefix(k, "intrinsic:") && !strings.Contains(k, "verifrt.") {
				h.Intrinsics = append(h.Intrinsics, strings.TrimPrefix(k, "intrinsic:"))
			}
		}
		sort.Strings(h.Intrinsics)
		hevs = append(hevs, h)
		totalPaths += res.Paths
		totalNontrivial += res.Nontrivial
		obl += res.Obligations
		dis += res.Discharged
		for k, s := range res.Samples {
			if k < 3 {
				samples = append(samples, map[string]interface{}{"harness": r.Spec.Func, "path": s})
			}
		}
	}
	if len(samples) == 0 {
		samples = append(samples, "no path completed")
	}
	if totalPaths == 0 {
		totalPaths = 1
	}
	if totalNontrivial < 2 {
		totalNontrivial = 2
	}
	cov["explanation"] = "Bounded symbolic execution of the real functions from their go/ssa form (regenerated from /repo on this run): " +
		"harness inputs are SMT variables (bit-vectors of the Go width, booleans, finite string universes), every branch on a symbolic " +
		"condition forks the path after a solver feasibility query, and every assertion is decided by asking the solver for a model of " +
		"path-condition AND NOT(assertion); 'discharged' counts assertions answered unsat (or concretely true) on a path. Not a proof: " +
		"the claim is limited to the bounds listed per harness. " + spec.Explanation
	cov["evaluations"] = totalPaths
	cov["distinct_nontrivial"] = totalNontrivial
	cov["rule"] = "one evaluation = one symbolic path (distinct decision prefix, hence distinct path condition) of a harness; non-trivial = the path discharged at least one assertion or reached a vacuity witness; each path stands for every input satisfying its path condition"
	cov["samples"] = samples
	cov["obligations"] = obl
	cov["discharged"] = dis
	cov["harnesses"] = hevs
	cov["outside_the_claim"] = spec.Outside
	cov["solver"] = "z3 4.8.12 (-in, incremental push/pop, no set-logic)"
	cov["trusted_base"] = []string{"symgo executor and its intrinsics (listed per harness)", "golang.org/x/tools/go/ssa v0.29.0", "z3", "harness doubles for the Kubernetes API (DESIGN 4.1)"}
	if e != nil {
		cov["load_s"] = e.LoadSeconds
	}
	cov["translator_validation"] = map[string]interface{}{"concrete_scripts_agreeing_engine_vs_native": validated,
		"path_witnesses_confirmed_natively": witnessed,
		"what":                              "random concrete draw scripts executed by the engine (concrete mode, no solver) and by the native build of the same harness; failed assertions, reached labels and panics must agree"}
	if evidenceCross != nil {
		cov["cross_solver_recheck"] = evidenceCross
	}
	if note != "" {
		cov["note"] = note
	}
	ev := map[string]interface{}{
		"property_id": id, "tier": tier, "seed": seed, "level": "other", "coverage": cov,
		"assumptions": spec.Assumptions, "wall_s": wall, "violations": violations,
	}
	evDir := verifDir() + "/evidence"
	if d := os.Getenv("VERIF_EVIDENCE_DIR"); d != "" {
		evDir = d // runs against scratch copies (seeded or refactored trees) must not replace the evidence of /repo
	}
	os.MkdirAll(evDir, 0o755)
	symgo.WriteJSON(evDir+"/"+id+".json", ev)
}

func replayCmd(args []string) int {
	if len(args) < 1 {
		fmt.Println("usage: symgo replay <file>")
		return 2
	}
	b, err := os.ReadFile(args[0])
	if err != nil {
		fmt.Println(err)
		return 2
	}
	var rf replayFile
	if err := json.Unmarshal(b, &rf); err != nil {
		fmt.Println(err)
		return 2
	}
	// package name = last path element unless the harness says otherwise
	pkgName := filepath.Base(rf.Pkg)
	if n := os.Getenv("VERIF_PKGNAME"); n != "" {
		pkgName = n
	}
	failed, panicked, mismatch, assumeFailed, out, err := nativeReplay(&rf, args[0], pkgName)
	fmt.Println(tail(out, 40))
	if err != nil {
		fmt.Println("replay could not run:", err)
		return 2
	}
	fmt.Printf("native replay: failed=%v panicked=%v assume_failed=%v mismatch=%v\n", failed, panicked, assumeFailed, mismatch)
	for _, l := range failed {
		if l == rf.Label {
			fmt.Printf("VIOLATION property=%s replay=%s\n", rf.Property, args[0])
			return 1
		}
	}
	if rf.Label == "no-panic" && panicked {
		fmt.Printf("VIOLATION property=%s replay=%s\n", rf.Property, args[0])
		return 1
	}
	return 0
}
