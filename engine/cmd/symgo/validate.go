package main

// Translator validation: every harness is executed with random concrete draws both in the engine (concrete mode, no
// solver) and natively against the real build; failed assertions, reached labels and panics must agree. This
// exercises the interpreter, the intrinsics and the stubs on the real code's own behaviour.

import (
	"encoding/json"
	"fmt"
	"os"
	"os/exec"
	"path/filepath"
	"sort"
	"strings"

	"golang.org/x/tools/go/ssa"

	"verif/engine/symgo"
)

type validationResult struct {
	Witnesses  int      `json:"path_witnesses_run_natively"`
	WitAgree   int      `json:"path_witnesses_agree"`
	Runs       int      `json:"runs"`
	Discarded  int      `json:"discarded_by_assumptions"`
	Agree      int      `json:"agree"`
	Problems   []string `json:"problems,omitempty"`
	Mismatches []string `json:"mismatches,omitempty"`
}

func buildNativeBinary(pkg, pkgName string, funcs []string, tmp string) (string, error) {
	dir := pkgDir(pkg)
	var sb strings.Builder
	fmt.Fprintf(&sb, "//go:build verif\n\npackage %s\n\nimport (\n\t\"os\"\n\t\"testing\"\n\n\t\"package-operator.run/internal/verifrt\"\n)\n\n", pkgName)
	sb.WriteString("func TestVerifReplay(t *testing.T) {\n\tverifrt.Reset()\n\tdefer func() {\n\t\tif r := recover(); r != nil {\n\t\t\tif _, ok := r.(verifrt.AssumeFailed); ok {\n\t\t\t\tt.Log(\"VERIF-REPLAY assume-failed\")\n\t\t\t\treturn\n\t\t\t}\n\t\t\tt.Logf(\"VERIF-REPLAY panic: %v\", r)\n\t\t}\n\t\tfor _, m := range verifrt.Mismatch {\n\t\t\tt.Logf(\"VERIF-REPLAY mismatch: %s\", m)\n\t\t}\n\t\tfor _, l := range verifrt.Reached {\n\t\t\tt.Logf(\"VERIF-REPLAY reached: %s\", l)\n\t\t}\n\t\tfor _, l := range verifrt.Failed {\n\t\t\tt.Logf(\"VERIF-REPLAY failed: %s\", l)\n\t\t}\n\t}()\n\tswitch os.Getenv(\"VERIF_FUNC\") {\n")
	for _, f := range funcs {
		fmt.Fprintf(&sb, "\tcase %q:\n\t\t%s()\n", f, f)
	}
	sb.WriteString("\tdefault:\n\t\tt.Fatal(\"unknown harness\")\n\t}\n}\n")
	testFile := filepath.Join(tmp, "zz_verif_replay_test.go")
	if err := os.WriteFile(testFile, []byte(sb.String()), 0o644); err != nil {
		return "", err
	}
	ov := harnessOverlay()
	ov[filepath.Join(dir, "zz_verif_replay_test.go")] = testFile
	ovb, _ := json.Marshal(map[string]interface{}{"Replace": ov})
	ovPath := filepath.Join(tmp, "overlay.json")
	os.WriteFile(ovPath, ovb, 0o644)
	rel, _ := filepath.Rel(repoDir(), dir)
	bin := filepath.Join(tmp, "harness.test")
	cmd := exec.Command("go", "test", "-c", "-tags", "verif", "-vet=off", "-overlay", ovPath, "-o", bin, "./"+rel+"/")
	cmd.Dir = repoDir()
	cmd.Env = cleanGoEnv()
	out, err := cmd.CombinedOutput()
	if err != nil {
		return "", fmt.Errorf("building native harness binary: %v\n%s", err, tail(string(out), 20))
	}
	return bin, nil
}

func cleanGoEnv() []string {
	env := []string{}
	for _, e := range os.Environ() {
		if strings.HasPrefix(e, "GOFLAGS=") || strings.HasPrefix(e, "GOTOOLCHAIN=") || strings.HasPrefix(e, "GOSUMDB=") || strings.HasPrefix(e, "GOPROXY=") {
			continue
		}
		env = append(env, e)
	}
	return append(env, "GOPROXY=off", "GOFLAGS=", "GOTOOLCHAIN=auto", "GOSUMDB=sum.golang.org")
}

func runNativeBinary(bin, pkg, fn, script string) (failed, reached []string, panicked, assumeFailed bool, mismatch []string, err error) {
	cmd := exec.Command(bin, "-test.run", "^TestVerifReplay$", "-test.v", "-test.timeout", "2m")
	cmd.Dir = pkgDir(pkg)
	cmd.Env = append(os.Environ(), "VERIF_SCRIPT="+script, "VERIF_FUNC="+fn)
	out, _ := cmd.CombinedOutput()
	ran := false
	for _, line := range strings.Split(string(out), "\n") {
		line = strings.TrimSpace(line)
		if strings.Contains(line, "=== RUN   TestVerifReplay") {
			ran = true
		}
		if k := strings.Index(line, "VERIF-REPLAY failed: "); k >= 0 {
			failed = append(failed, strings.TrimSpace(line[k+len("VERIF-REPLAY failed: "):]))
		}
		if k := strings.Index(line, "VERIF-REPLAY reached: "); k >= 0 {
			reached = append(reached, strings.TrimSpace(line[k+len("VERIF-REPLAY reached: "):]))
		}
		if strings.Contains(line, "VERIF-REPLAY panic: ") {
			panicked = true
		}
		if k := strings.Index(line, "VERIF-REPLAY mismatch: "); k >= 0 {
			mismatch = append(mismatch, line[k:])
		}
		if strings.Contains(line, "VERIF-REPLAY assume-failed") {
			assumeFailed = true
		}
	}
	if !ran {
		err = fmt.Errorf("native harness did not run: %s", tail(string(out), 10))
	}
	return
}

func uniqSorted(in []string) []string {
	m := map[string]bool{}
	for _, s := range in {
		m[s] = true
	}
	out := make([]string, 0, len(m))
	for s := range m {
		out = append(out, s)
	}
	sort.Strings(out)
	return out
}

// validateHarness runs k random concrete scripts through engine and native build.
func validateHarness(e *symgo.Engine, f *ssa.Function, h harnessSpec, ts tierSpec, bin string, k int, seed int64, tmp string) validationResult {
	var res validationResult
	attempts := 0
	for res.Runs < k && attempts < k*6 {
		attempts++
		cr := e.RunConcrete(f, seed*1000+int64(attempts), symgo.Options{Bounds: ts.Bounds})
		if cr.Discarded {
			res.Discarded++
			continue
		}
		if cr.Problem != "" {
			res.Problems = append(res.Problems, trunc(cr.Problem, 200))
			res.Runs++
			continue
		}
		res.Runs++
		script := filepath.Join(tmp, fmt.Sprintf("script-%s-%d.json", h.Func, attempts))
		symgo.WriteJSON(script, map[string]interface{}{"draws": cr.Draws, "bounds": ts.Bounds})
		nf, nr, np, na, nm, err := runNativeBinary(bin, h.Pkg, h.Func, script)
		if err != nil {
			res.Problems = append(res.Problems, err.Error())
			continue
		}
		ef, er := uniqSorted(cr.Failed), uniqSorted(cr.Reached)
		nfu, nru := uniqSorted(nf), uniqSorted(nr)
		sameReached := strings.Join(er, "|") == strings.Join(nru, "|")
		if h.Threads > 1 || h.MapOrder {
			sameReached = true // which labels are reached depends on the schedule / iteration order, uncontrolled natively
		}
		if strings.Join(ef, "|") == strings.Join(nfu, "|") && sameReached && cr.Panicked == np && !na && len(nm) == 0 {
			res.Agree++
			continue
		}
		keep := filepath.Join(verifDir(), "replays", fmt.Sprintf("mismatch-%s-%d.json", h.Func, attempts))
		os.MkdirAll(filepath.Dir(keep), 0o755)
		symgo.WriteJSON(keep, map[string]interface{}{"draws": cr.Draws, "bounds": ts.Bounds})
		res.Mismatches = append(res.Mismatches, fmt.Sprintf("engine failed=%v reached=%v panicked=%v(%s) | native failed=%v reached=%v panicked=%v assumeFailed=%v mismatch=%v | script=%s",
			ef, er, cr.Panicked, trunc(cr.PanicMsg, 80), nfu, nru, np, na, nm, keep))
	}
	return res
}

func trunc(s string, n int) string {
	if len(s) > n {
		return s[:n] + "..."
	}
	return s
}

// validateWitnesses runs solver-produced inputs of completed symbolic paths through the native build: the native run
// must fail no assertion, must not panic and must reach exactly the labels the engine reached on that path.
func validateWitnesses(res *validationResult, ws []symgo.PathWitness, h harnessSpec, ts tierSpec, bin string, tmp string) {
	for n, w := range ws {
		script := filepath.Join(tmp, fmt.Sprintf("witness-%s-%d.json", h.Func, n))
		symgo.WriteJSON(script, map[string]interface{}{"draws": w.Draws, "bounds": ts.Bounds})
		nf, nr, np, na, nm, err := runNativeBinary(bin, h.Pkg, h.Func, script)
		if err != nil {
			res.Problems = append(res.Problems, err.Error())
			continue
		}
		res.Witnesses++
		er, nru := uniqSorted(w.Reached), uniqSorted(nr)
		sameReached := strings.Join(er, "|") == strings.Join(nru, "|")
		if h.Threads > 1 || h.MapOrder {
			sameReached = true
		}
		if len(nf) == 0 && !np && !na && len(nm) == 0 && sameReached {
			res.WitAgree++
			continue
		}
		keep := filepath.Join(verifDir(), "replays", fmt.Sprintf("mismatch-%s-witness-%d.json", h.Func, n))
		os.MkdirAll(filepath.Dir(keep), 0o755)
		symgo.WriteJSON(keep, map[string]interface{}{"draws": w.Draws, "bounds": ts.Bounds, "decisions": w.Prefix})
		res.Mismatches = append(res.Mismatches, fmt.Sprintf("path witness: engine completed the path with reached=%v and no failure | native failed=%v reached=%v panicked=%v assumeFailed=%v mismatch=%v | script=%s",
			er, uniqSorted(nf), nru, np, na, nm, keep))
	}
}
