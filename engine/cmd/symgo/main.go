// symgo: driver for the symbolic executor. Sub-commands:
//
//	symgo explore  -patterns p1,p2 -pkg importpath -fn Name [-trace] [-prefix 1,0] [-bounds a=1,b=2]
//	symgo check <ID> [--tier quick|thorough]
//	symgo replay <file>
package main

import (
	"encoding/json"
	"flag"
	"fmt"
	"os"
	"runtime"
	"runtime/debug"
	"runtime/pprof"
	"strconv"
	"strings"
	"syscall"

	"verif/engine/symgo"
)

func main() {
	// Touching fresh pages is very expensive in this sandbox: keep the heap small and do not hand memory back to the
	// OS eagerly. GODEBUG must be set before the runtime starts, hence the re-exec.
	if os.Getenv("SYMGO_REEXEC") == "" {
		env := append(os.Environ(), "SYMGO_REEXEC=1")
		if os.Getenv("GOGC") == "" {
			env = append(env, "GOGC=50")
		}
		if os.Getenv("GODEBUG") == "" {
			env = append(env, "GODEBUG=madvdontneed=0")
		}
		if exe, err := os.Executable(); err == nil {
			_ = syscall.Exec(exe, os.Args, env)
		}
	}
	_ = debug.SetGCPercent
	if os.Getenv("VERIF_MEMPROFILE") != "" {
		runtime.MemProfileRate = 64 * 1024
	}
	if len(os.Args) < 2 {
		fmt.Fprintln(os.Stderr, "usage: symgo explore|check|replay ...")
		os.Exit(2)
	}
	switch os.Args[1] {
	case "funcs":
		os.Exit(funcsCmd(os.Args[2:]))
	case "explore":
		explore(os.Args[2:])
	case "check":
		os.Exit(check(os.Args[2:]))
	case "replay":
		os.Exit(replayCmd(os.Args[2:]))
	default:
		fmt.Fprintln(os.Stderr, "unknown command", os.Args[1])
		os.Exit(2)
	}
}

func verifDir() string {
	if d := os.Getenv("VERIF_DIR"); d != "" {
		return d
	}
	return "/verif"
}

func repoDir() string {
	if d := os.Getenv("VERIF_REPO"); d != "" {
		return d
	}
	return "/repo"
}

func loadEngine(patterns []string) (*symgo.Engine, error) {
	overlay := map[string][]byte{}
	if err := symgo.OverlayFromDir(verifDir()+"/harness", repoDir(), overlay); err != nil {
		return nil, err
	}
	return symgo.Load(symgo.LoadConfig{
		Dir: repoDir(), Patterns: patterns, Overlay: overlay, Tags: []string{"verif"},
		Env: []string{"GOPROXY=off", "GOFLAGS=", "GOTOOLCHAIN=auto", "GOSUMDB=sum.golang.org"},
	})
}

func parseBounds(s string) map[string]int {
	m := map[string]int{}
	for _, kv := range strings.Split(s, ",") {
		if kv == "" {
			continue
		}
		p := strings.SplitN(kv, "=", 2)
		n, _ := strconv.Atoi(p[1])
		m[p[0]] = n
	}
	return m
}

func explore(args []string) {
	fs := flag.NewFlagSet("explore", flag.ExitOnError)
	patterns := fs.String("patterns", "./internal/controllers", "comma separated package patterns")
	pkg := fs.String("pkg", "package-operator.run/internal/controllers", "import path of harness package")
	fn := fs.String("fn", "", "harness function")
	trace := fs.Bool("trace", false, "trace calls")
	prefix := fs.String("prefix", "", "run only this decision prefix")
	bounds := fs.String("bounds", "", "bounds k=v,...")
	workers := fs.Int("workers", 0, "workers")
	maxPaths := fs.Int("maxpaths", 0, "max paths")
	mapOrder := fs.Bool("maporder", false, "explore map iteration orders")
	threads := fs.Int("threads", 1, "max threads")
	cpuprof := fs.String("cpuprofile", "", "write cpu profile")
	switches := fs.Int("switches", 6, "pre-emption bound")
	fs.Parse(args)
	if *cpuprof != "" {
		f, _ := os.Create(*cpuprof)
		pprof.StartCPUProfile(f)
		defer pprof.StopCPUProfile()
	}
	e, err := loadEngine(strings.Split(*patterns, ","))
	if err != nil {
		fmt.Fprintln(os.Stderr, err)
		os.Exit(2)
	}
	fmt.Printf("loaded in %.1fs\n", e.LoadSeconds)
	e.SetTracing(*trace)
	if *workers > 0 {
		e.Workers = *workers
	}
	if *maxPaths > 0 {
		e.MaxPaths = *maxPaths
	}
	e.MaxThreads = *threads
	e.MaxSwitches = *switches
	f := e.FindFunc(*pkg, *fn)
	if f == nil {
		fmt.Fprintln(os.Stderr, "harness not found")
		os.Exit(2)
	}
	opt := symgo.Options{Bounds: parseBounds(*bounds), MapOrder: *mapOrder}
	if *prefix != "" {
		opt.OnlyPrefix = []int{}
		for _, s := range strings.Split(*prefix, ",") {
			n, _ := strconv.Atoi(s)
			opt.OnlyPrefix = append(opt.OnlyPrefix, n)
		}
	}
	if *trace {
		opt.SingleWorker = true
	}
	if mp := os.Getenv("VERIF_MEMPROFILE"); mp != "" {
		defer func() {
			f, _ := os.Create(mp)
			pprof.Lookup("allocs").WriteTo(f, 0)
			f.Close()
		}()
	}
	if os.Getenv("VERIF_PROF_ENV") != "" {
		symgo.EnableEnvProfile()
		defer symgo.DumpEnvProfile()
	}
	res := e.Explore(f, opt)
	res.Funcs = nil
	b, _ := json.MarshalIndent(res, "", " ")
	fmt.Println(string(b))
}

// funcsCmd prints every repository function of the given patterns with its SSA instruction count (coverage reports).
func funcsCmd(args []string) int {
	e, err := loadEngine(args)
	if err != nil {
		fmt.Println(err)
		return 2
	}
	symgo.WriteJSON("/dev/stdout", e.RepoFunctions())
	return 0
}
