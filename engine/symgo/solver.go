package symgo

import (
	"os"
	"bufio"
	"fmt"
	"io"
	"os/exec"
	"regexp"
	"strconv"
	"strings"
	"time"
)

type Verdict int

const (
	Unsat Verdict = iota
	Sat
	Unknown
)

func (v Verdict) String() string { return [...]string{"unsat", "sat", "unknown"}[v] }

// Solver wraps one long-lived SMT solver process speaking SMT-LIB2 on stdin/stdout.
type Solver struct {
	name   string
	cmd    *exec.Cmd
	in     io.WriteCloser
	out    *bufio.Reader
	Stats  SolverStats
	log    io.Writer // optional transcript
	dead   bool
	inPath bool
}

type SolverStats struct {
	Sat, Unsat, Unknown int
	Errors              int
	Time                time.Duration
}

func (s *SolverStats) Add(o SolverStats) {
	s.Sat += o.Sat
	s.Unsat += o.Unsat
	s.Unknown += o.Unknown
	s.Errors += o.Errors
	s.Time += o.Time
}

// SolverCommand returns argv for a named back end.
func SolverCommand(name string) []string {
	switch name {
	case "z3-new":
		return []string{"z3-new", "-in", "-T:0"}
	case "cvc5":
		return []string{"cvc5", "--incremental", "--lang=smt2", "--produce-models"}
	default:
		return []string{"z3", "-in"}
	}
}

func NewSolver(name string) (*Solver, error) {
	argv := SolverCommand(name)
	cmd := exec.Command(argv[0], argv[1:]...)
	in, err := cmd.StdinPipe()
	if err != nil {
		return nil, err
	}
	out, err := cmd.StdoutPipe()
	if err != nil {
		return nil, err
	}
	cmd.Stderr = nil
	if err := cmd.Start(); err != nil {
		return nil, err
	}
	s := &Solver{name: name, cmd: cmd, in: in, out: bufio.NewReaderSize(out, 1<<16)}
	s.send("(set-option :produce-models true)")
	if name == "cvc5" {
		s.send("(set-logic QF_UFBV)")
	}
	return s, nil
}

func (s *Solver) Close() {
	if s == nil || s.dead {
		return
	}
	s.dead = true
	s.in.Close()
	s.cmd.Process.Kill()
	s.cmd.Wait()
}

func (s *Solver) send(line string) {
	if s.log != nil {
		fmt.Fprintln(s.log, line)
	}
	io.WriteString(s.in, line)
	io.WriteString(s.in, "\n")
}

// Reset starts a fresh path: everything asserted or declared since the previous Reset is dropped.
func (s *Solver) Reset() {
	if s.inPath {
		s.send("(pop 1)")
	}
	s.send("(push 1)")
	s.inPath = true
}

func (s *Solver) Declare(name string, w int) {
	s.send(fmt.Sprintf("(declare-const %s %s)", name, sortOf(w)))
}

func (s *Solver) Assert(t *Term) {
	s.send("(assert " + t.smt + ")")
}

func (s *Solver) readLine() string {
	line, err := s.out.ReadString('\n')
	if err != nil {
		s.dead = true
		return "(error \"solver died: " + err.Error() + "\")"
	}
	return strings.TrimSpace(line)
}

// readSexp reads one balanced s-expression (possibly spanning lines).
func (s *Solver) readSexp() string {
	var sb strings.Builder
	depth := 0
	started := false
	for {
		line := s.readLine()
		sb.WriteString(line)
		sb.WriteByte(' ')
		for _, c := range line {
			if c == '(' {
				depth++
				started = true
			} else if c == ')' {
				depth--
			}
		}
		if (started && depth <= 0) || (!started && line != "") || s.dead {
			return sb.String()
		}
	}
}

// Check asks whether the asserted context plus extra is satisfiable. If wantModel is non-empty and the
// verdict is Sat, the values of those variables are returned.
func (s *Solver) Check(extra *Term, timeoutMs int, wantModel []string) (Verdict, map[string]uint64) {
	start := time.Now()
	defer func() { s.Stats.Time += time.Since(start) }()
	s.send("(push 1)")
	if extra != nil {
		s.Assert(extra)
	}
	if timeoutMs > 0 && s.name != "cvc5" {
		s.send(fmt.Sprintf("(set-option :timeout %d)", timeoutMs))
	}
	s.send("(check-sat)")
	ans := s.readLine()
	for strings.HasPrefix(ans, "(error") || ans == "" || ans == "unsupported" || ans == "success" {
		if strings.HasPrefix(ans, "(error") {
			s.Stats.Errors++
			if s.Stats.Errors <= 3 {
				fmt.Fprintln(os.Stderr, "solver error line:", trunc(ans, 300))
			}
			// an error line means the answer that follows is not trustworthy
			if s.dead {
				return Unknown, nil
			}
			// drain the verdict that follows, report unknown
			v := s.readLine()
			_ = v
			s.send("(pop 1)")
			s.Stats.Unknown++
			return Unknown, nil
		}
		ans = s.readLine()
	}
	var v Verdict
	switch ans {
	case "sat":
		v = Sat
		s.Stats.Sat++
	case "unsat":
		v = Unsat
		s.Stats.Unsat++
	default:
		v = Unknown
		s.Stats.Unknown++
	}
	var model map[string]uint64
	if v == Sat && len(wantModel) > 0 {
		s.send("(get-value (" + strings.Join(wantModel, " ") + "))")
		resp := s.readSexp()
		model = parseModel(resp)
	}
	s.send("(pop 1)")
	return v, model
}

var modelRe = regexp.MustCompile(`\(\s*([^\s()]+)\s+(#x[0-9a-fA-F]+|#b[01]+|true|false|\(_ bv([0-9]+) [0-9]+\))\s*\)`)

func parseModel(resp string) map[string]uint64 {
	m := map[string]uint64{}
	for _, g := range modelRe.FindAllStringSubmatch(resp, -1) {
		name, val := g[1], g[2]
		switch {
		case val == "true":
			m[name] = 1
		case val == "false":
			m[name] = 0
		case strings.HasPrefix(val, "#x"):
			u, _ := strconv.ParseUint(val[2:], 16, 64)
			m[name] = u
		case strings.HasPrefix(val, "#b"):
			u, _ := strconv.ParseUint(val[2:], 2, 64)
			m[name] = u
		default:
			u, _ := strconv.ParseUint(g[3], 10, 64)
			m[name] = u
		}
	}
	return m
}

// Recheck feeds discharged obligations (complete SMT-LIB scripts ending in check-sat) to another solver and
// returns how many it also answers unsat, and the answers that differ.
func Recheck(solverName string, queries []string) (agree int, differ []string, err error) {
	argv := SolverCommand(solverName)
	cmd := exec.Command(argv[0], argv[1:]...)
	in, err := cmd.StdinPipe()
	if err != nil {
		return 0, nil, err
	}
	outp, err := cmd.StdoutPipe()
	if err != nil {
		return 0, nil, err
	}
	if err := cmd.Start(); err != nil {
		return 0, nil, err
	}
	defer func() { in.Close(); cmd.Process.Kill(); cmd.Wait() }()
	rd := bufio.NewReaderSize(outp, 1<<16)
	if solverName == "cvc5" {
		io.WriteString(in, "(set-logic QF_BV)\n")
	}
	for _, q := range queries {
		io.WriteString(in, "(push 1)\n"+q+"(pop 1)\n")
		ans := ""
		for {
			line, rerr := rd.ReadString('\n')
			if rerr != nil {
				return agree, differ, fmt.Errorf("%s died: %v", solverName, rerr)
			}
			line = strings.TrimSpace(line)
			if line == "" || line == "success" {
				continue
			}
			ans = line
			break
		}
		if ans == "unsat" {
			agree++
		} else {
			differ = append(differ, ans)
		}
	}
	return agree, differ, nil
}
