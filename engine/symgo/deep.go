package symgo

// Structural intrinsics: deep copy, reflect.DeepEqual / equality.Semantic.DeepEqual, and the JSON
// conversions (encoding/json, sigs.k8s.io/json, sigs.k8s.io/yaml on blobs, DefaultUnstructuredConverter).

import (
	stdjson "encoding/json"
	"fmt"
	"go/token"
	"go/types"
	"reflect"
	sigsyaml "sigs.k8s.io/yaml"
	"sort"
	"strings"
	"time"

	"golang.org/x/tools/go/ssa"
)

func deepCopyValue(v value, memo map[*value]*value) value {
	switch x := v.(type) {
	case structure:
		out := make(structure, len(x))
		for k := range x {
			out[k] = deepCopyValue(x[k], memo)
		}
		return out
	case array:
		out := make(array, len(x))
		for k := range x {
			out[k] = deepCopyValue(x[k], memo)
		}
		return out
	case []value:
		if x == nil {
			return x
		}
		out := make([]value, len(x), cap(x))
		for k := range x {
			out[k] = deepCopyValue(x[k], memo)
		}
		return out
	case *gomap:
		if x == nil {
			return x
		}
		out := newMap()
		for k := range x.keys {
			out.set(x.keys[k], deepCopyValue(x.vals[k], memo))
		}
		return out
	case iface:
		return iface{t: x.t, v: deepCopyValue(x.v, memo)}
	case *value:
		if x == nil {
			return x
		}
		if c, ok := memo[x]; ok {
			return c
		}
		c := new(value)
		memo[x] = c
		*c = deepCopyValue(*x, memo)
		return c
	case tuple:
		out := make(tuple, len(x))
		for k := range x {
			out[k] = deepCopyValue(x[k], memo)
		}
		return out
	}
	return v
}

// ------------------------------------------------------------------ DeepEqual

type deepMode int

const (
	deepReflect  deepMode = iota // reflect.DeepEqual
	deepSemantic                 // equality.Semantic.DeepEqual: nil == empty; Time/Quantity by value
	deepDerive                   // equality.Semantic.DeepDerivative(a, b): what is unset or empty in a is ignored
)

func (i *interpreter) deepEqual(t types.Type, a, b value, mode deepMode, depth int) value {
	if depth > 60 {
		panic(unsupported("DeepEqual recursion too deep (cyclic value?)"))
	}
	if mode == deepSemantic || mode == deepDerive {
		switch typeKey(t) {
		case "k8s.io/apimachinery/pkg/apis/meta/v1.Time", "k8s.io/apimachinery/pkg/apis/meta/v1.MicroTime":
			ta := a.(structure)[0].(*nativeVal).v.Interface().(time.Time)
			tb := b.(structure)[0].(*nativeVal).v.Interface().(time.Time)
			return ta.Equal(tb)
		}
	}
	switch u := t.Underlying().(type) {
	case *types.Basic:
		if u.Kind() == types.UnsafePointer {
			return true
		}
		if mode == deepDerive && u.Info()&types.IsString != 0 {
			if as, ok := a.(string); ok && as == "" {
				return true
			}
		}
		return i.eqv(t, a, b)
	case *types.Pointer:
		pa, pb := a.(*value), b.(*value)
		if mode == deepDerive && pa == nil {
			return true
		}
		if pa == nil || pb == nil {
			return pa == pb
		}
		if pa == pb {
			return true
		}
		return i.deepEqual(u.Elem(), *pa, *pb, mode, depth+1)
	case *types.Struct:
		if nv, ok := a.(*nativeVal); ok {
			return reflect.DeepEqual(nv.v.Interface(), b.(*nativeVal).v.Interface())
		}
		sa, sb := a.(structure), b.(structure)
		var r value = true
		for k := 0; k < u.NumFields(); k++ {
			r = symAnd(r, i.deepEqual(u.Field(k).Type(), sa[k], sb[k], mode, depth+1))
			if bb, ok := r.(bool); ok && !bb {
				return false
			}
		}
		return r
	case *types.Array:
		sa, sb := a.(array), b.(array)
		var r value = true
		for k := range sa {
			r = symAnd(r, i.deepEqual(u.Elem(), sa[k], sb[k], mode, depth+1))
		}
		return r
	case *types.Slice:
		if ba, ok := a.(*blob); ok {
			bb, ok := b.(*blob)
			if !ok {
				panic(unsupported("DeepEqual of JSON blob with byte slice"))
			}
			if ba.raw == nil || bb.raw == nil {
				return ba.raw == nil && bb.raw == nil
			}
			return i.deepEqual(ba.t, ba.raw, bb.raw, mode, depth+1)
		}
		sa, _ := a.([]value)
		sb, _ := b.([]value)
		if mode == deepReflect && (sa == nil) != (sb == nil) {
			return false
		}
		if mode == deepDerive {
			if len(sa) == 0 {
				return true
			}
			if len(sa) > len(sb) {
				return false
			}
		} else if len(sa) != len(sb) {
			return false
		}
		var r value = true
		for k := range sa {
			r = symAnd(r, i.deepEqual(u.Elem(), sa[k], sb[k], mode, depth+1))
			if bb, ok := r.(bool); ok && !bb {
				return false
			}
		}
		return r
	case *types.Map:
		ma, mb := a.(*gomap), b.(*gomap)
		if mode == deepReflect && (ma == nil) != (mb == nil) {
			return false
		}
		if mode == deepDerive {
			if ma.len() == 0 {
				return true
			}
			if ma.len() > mb.len() {
				return false
			}
		} else if ma.len() != mb.len() {
			return false
		}
		var r value = true
		if ma != nil {
			for k := range ma.keys {
				vb, ok := mb.get(ma.keys[k])
				if !ok {
					return false
				}
				r = symAnd(r, i.deepEqual(u.Elem(), ma.vals[k], vb, mode, depth+1))
				if bb, ok := r.(bool); ok && !bb {
					return false
				}
			}
		}
		return r
	case *types.Interface:
		ia, ib := a.(iface), b.(iface)
		if mode == deepDerive && ia.t == nil {
			return true
		}
		if ia.t == nil || ib.t == nil {
			return ia.t == nil && ib.t == nil
		}
		if !types.Identical(ia.t, ib.t) {
			return false
		}
		return i.deepEqual(ia.t, ia.v, ib.v, mode, depth+1)
	case *types.Signature:
		return isNilFunc(a) && isNilFunc(b)
	case *types.Chan:
		return a.(*gochan) == b.(*gochan)
	}
	panic(unsupported("DeepEqual on type " + t.String()))
}

func isNilFunc(v value) bool {
	switch f := v.(type) {
	case *ssa.Function:
		return f == nil
	case *closure:
		return f == nil
	}
	return false
}

func registerReflectIntrinsics(e *Engine) {
	for _, pre := range []string{"reflect.", "(reflect.", "(*reflect.", "internal/reflectlite.", "(internal/reflectlite.", "(*internal/reflectlite.", "internal/abi.", "(*internal/abi."} {
		e.regPrefix(pre, func(fr *frame, args []value) value {
			panic(unsupported("reflection is not modelled: " + fr.fn.String()))
		})
	}
	e.reg("context.WithValue", func(fr *frame, args []value) value {
		i := fr.i
		parent := args[0].(iface)
		if parent.t == nil {
			panic(targetPanic{"cannot create context from nil parent"})
		}
		key := args[1].(iface)
		if key.t == nil {
			panic(targetPanic{"nil key"})
		}
		if !types.Comparable(key.t) {
			panic(targetPanic{"key is not comparable"})
		}
		t := i.namedType("context", "valueCtx")
		var cell value = structure{parent, key, args[2]}
		return iface{t: types.NewPointer(t), v: &cell}
	})
	de := func(mode deepMode) intrinsic {
		return func(fr *frame, args []value) value {
			a, b := args[len(args)-2].(iface), args[len(args)-1].(iface)
			if mode == deepDerive && a.t == nil {
				return true
			}
			if a.t == nil || b.t == nil {
				return a.t == nil && b.t == nil
			}
			if !types.Identical(a.t, b.t) {
				return false
			}
			return fr.i.deepEqual(a.t, a.v, b.v, mode, 0)
		}
	}
	e.reg("reflect.DeepEqual", de(deepReflect))
	e.reg("(k8s.io/apimachinery/third_party/forked/golang/reflect.Equalities).DeepEqual", de(deepSemantic))
	e.reg("(k8s.io/apimachinery/third_party/forked/golang/reflect.Equalities).DeepDerivative", de(deepDerive))
}

// ------------------------------------------------------------------ JSON

type jsonField struct {
	name      string
	index     int
	omitEmpty bool
	inline    bool
	typ       types.Type
}

func jsonFields(st *types.Struct) []jsonField {
	var out []jsonField
	for k := 0; k < st.NumFields(); k++ {
		f := st.Field(k)
		tag := reflect.StructTag(st.Tag(k)).Get("json")
		if tag == "-" {
			continue
		}
		parts := strings.Split(tag, ",")
		name := parts[0]
		jf := jsonField{index: k, typ: f.Type()}
		for _, o := range parts[1:] {
			switch o {
			case "omitempty":
				jf.omitEmpty = true
			case "inline":
				jf.inline = true
			}
		}
		if !f.Exported() && !f.Embedded() {
			continue
		}
		if name == "" {
			if f.Embedded() {
				if _, ok := derefType(f.Type()).Underlying().(*types.Struct); ok {
					jf.inline = true
				}
			}
			name = f.Name()
		}
		jf.name = name
		out = append(out, jf)
	}
	return out
}

func derefType(t types.Type) types.Type {
	if p, ok := t.Underlying().(*types.Pointer); ok {
		return p.Elem()
	}
	return t
}

var (
	tInt64   = types.Typ[types.Int64]
	tFloat64 = types.Typ[types.Float64]
	tString  = types.Typ[types.String]
	tBool    = types.Typ[types.Bool]
)

func (i *interpreter) tMapStringAny() types.Type {
	return types.NewMap(tString, types.NewInterfaceType(nil, nil))
}
func (i *interpreter) tSliceAny() types.Type {
	return types.NewSlice(types.NewInterfaceType(nil, nil))
}

// isEmptyValue decides omitempty; may fork on symbolic scalars.
func (i *interpreter) isEmptyValue(t types.Type, v value) bool {
	switch u := t.Underlying().(type) {
	case *types.Basic:
		switch x := v.(type) {
		case *Term:
			var z *Term
			if x.w == 0 {
				z = tNot(x)
			} else {
				z = tEq(x, mkBV(0, x.w))
			}
			return i.path.decideBool(z)
		case symStr:
			l := i.symLen(x)
			if n, ok := l.(int); ok {
				return n == 0
			}
			return i.path.decideBool(tEq(l.(*Term), mkBV(0, 64)))
		case opaqueStr:
			return false
		case string:
			return x == ""
		case bool:
			return !x
		}
		return reflect.ValueOf(v).IsZero()
	case *types.Pointer:
		return v.(*value) == nil
	case *types.Interface:
		return v.(iface).t == nil
	case *types.Slice:
		if b, ok := v.(*blob); ok {
			return b == nil
		}
		s, _ := v.([]value)
		return len(s) == 0
	case *types.Map:
		return v.(*gomap).len() == 0
	case *types.Array:
		return u.Len() == 0
	}
	return false
}

// toJSON converts a typed interpreter value to its generic JSON form: the result is the *inner* value of an
// interface{} (map[string]interface{} as *gomap of iface, []interface{} as []value of iface, string, bool,
// int64, float64) together with its type; ok=false means JSON null.
func (i *interpreter) toJSON(t types.Type, v value, depth int) iface {
	if depth > 40 {
		panic(unsupported("JSON conversion too deep"))
	}
	switch typeKey(t) {
	case "k8s.io/apimachinery/pkg/apis/meta/v1.Time", "k8s.io/apimachinery/pkg/apis/meta/v1.MicroTime":
		tm := v.(structure)[0].(*nativeVal).v.Interface().(time.Time)
		if tm.IsZero() {
			return iface{}
		}
		return iface{tString, tm.UTC().Format(time.RFC3339)}
	case "k8s.io/apimachinery/pkg/apis/meta/v1/unstructured.Unstructured":
		return i.toJSON(i.tMapStringAny(), v.(structure)[0], depth+1)
	case "k8s.io/apimachinery/pkg/apis/meta/v1.Duration":
		d := v.(structure)[0]
		if dd, ok := d.(int64); ok {
			return iface{tString, time.Duration(dd).String()}
		}
		return iface{tString, opaqueStr{hint: "duration"}}
	case "k8s.io/apimachinery/pkg/runtime.RawExtension":
		s := v.(structure)
		if b, ok := s[0].(*blob); ok && b != nil {
			return i.toJSON(b.t, b.raw, depth+1)
		}
		if raw, ok := s[0].([]value); ok && len(raw) > 0 {
			panic(unsupported("RawExtension with concrete bytes"))
		}
		if obj := s[1].(iface); obj.t != nil {
			return i.toJSON(obj.t, obj.v, depth+1)
		}
		return iface{}
	case "k8s.io/apimachinery/pkg/api/resource.Quantity", "k8s.io/apimachinery/pkg/util/intstr.IntOrString":
		panic(unsupported("JSON of " + typeKey(t)))
	}
	switch u := t.Underlying().(type) {
	case *types.Basic:
		info := u.Info()
		switch {
		case info&types.IsString != 0:
			return iface{tString, v}
		case info&types.IsBoolean != 0:
			return iface{tBool, v}
		case info&types.IsInteger != 0:
			if tv, ok := v.(*Term); ok {
				_, sgn, _ := isIntegerType(t)
				return iface{tInt64, bvResize(tv, 64, sgn)}
			}
			if info&types.IsUnsigned != 0 {
				return iface{tInt64, int64(asUint64(v))}
			}
			return iface{tInt64, asInt64(v)}
		case info&types.IsFloat != 0:
			if f, ok := v.(float32); ok {
				return iface{tFloat64, float64(f)}
			}
			return iface{tFloat64, v}
		}
	case *types.Pointer:
		p := v.(*value)
		if p == nil {
			return iface{}
		}
		return i.toJSON(u.Elem(), *p, depth+1)
	case *types.Interface:
		it := v.(iface)
		if it.t == nil {
			return iface{}
		}
		return i.toJSON(it.t, it.v, depth+1)
	case *types.Struct:
		out := newMap()
		i.structToJSON(u, v.(structure), out, depth)
		return iface{i.tMapStringAny(), out}
	case *types.Map:
		m := v.(*gomap)
		if m == nil {
			return iface{}
		}
		out := newMap()
		for k := range m.keys {
			ks, ok := m.keys[k].(string)
			if !ok {
				panic(unsupported("JSON of map with non-string key"))
			}
			out.set(ks, i.toJSON(u.Elem(), m.vals[k], depth+1))
		}
		return iface{i.tMapStringAny(), out}
	case *types.Slice:
		if b, ok := v.(*blob); ok {
			if eb, ok := u.Elem().Underlying().(*types.Basic); ok && eb.Kind() == types.Uint8 {
				if typeKey(t) == "encoding/json.RawMessage" {
					return i.toJSON(b.t, b.raw, depth+1)
				}
				panic(unsupported("JSON of []byte blob (base64)"))
			}
		}
		s, _ := v.([]value)
		if s == nil {
			return iface{}
		}
		if eb, ok := u.Elem().Underlying().(*types.Basic); ok && eb.Kind() == types.Uint8 {
			panic(unsupported("JSON of []byte (base64)"))
		}
		out := make([]value, len(s))
		for k := range s {
			out[k] = i.toJSON(u.Elem(), s[k], depth+1)
		}
		return iface{i.tSliceAny(), out}
	case *types.Array:
		s := v.(array)
		out := make([]value, len(s))
		for k := range s {
			out[k] = i.toJSON(u.Elem(), s[k], depth+1)
		}
		return iface{i.tSliceAny(), out}
	}
	panic(unsupported("JSON of type " + t.String()))
}

func (i *interpreter) structToJSON(st *types.Struct, s structure, out *gomap, depth int) {
	for _, f := range jsonFields(st) {
		fv := s[f.index]
		if f.inline {
			ft := f.typ
			if p, ok := ft.Underlying().(*types.Pointer); ok {
				pv := fv.(*value)
				if pv == nil {
					continue
				}
				fv = *pv
				ft = p.Elem()
			}
			if ist, ok := ft.Underlying().(*types.Struct); ok && typeKey(ft) != "k8s.io/apimachinery/pkg/apis/meta/v1.Time" {
				i.structToJSON(ist, fv.(structure), out, depth+1)
				continue
			}
		}
		if f.omitEmpty && i.isEmptyValue(f.typ, fv) {
			continue
		}
		out.set(f.name, i.toJSON(f.typ, fv, depth+1))
	}
}

type jsonError struct{ msg string }

// fromJSON converts generic JSON (an iface as produced by toJSON) into a value of type t.
func (i *interpreter) fromJSON(t types.Type, j iface, depth int) value {
	if depth > 40 {
		panic(unsupported("JSON conversion too deep"))
	}
	switch typeKey(t) {
	case "k8s.io/apimachinery/pkg/apis/meta/v1.Time", "k8s.io/apimachinery/pkg/apis/meta/v1.MicroTime":
		if j.t == nil {
			return zero(t)
		}
		s, ok := j.v.(string)
		if !ok {
			if _, sym := j.v.(symStr); sym {
				s = i.concretizeStr(j.v)
			} else {
				panic(jsonError{"cannot unmarshal non-string into Time"})
			}
		}
		tm, err := time.Parse(time.RFC3339, s)
		if err != nil {
			panic(jsonError{err.Error()})
		}
		return structure{&nativeVal{v: reflect.ValueOf(tm.Local())}}
	case "k8s.io/apimachinery/pkg/apis/meta/v1/unstructured.Unstructured":
		z := zero(t).(structure)
		if j.t != nil {
			z[0] = i.fromJSON(i.tMapStringAny(), j, depth+1)
		}
		return z
	case "k8s.io/apimachinery/pkg/runtime.RawExtension":
		z := zero(t).(structure)
		if j.t != nil {
			z[0] = &blob{t: j.t, raw: deepCopyValue(j.v, map[*value]*value{})}
		}
		return z
	case "k8s.io/apimachinery/pkg/api/resource.Quantity", "k8s.io/apimachinery/pkg/util/intstr.IntOrString", "k8s.io/apimachinery/pkg/apis/meta/v1.Duration":
		if j.t == nil {
			return zero(t)
		}
		panic(unsupported("JSON into " + typeKey(t)))
	}
	switch u := t.Underlying().(type) {
	case *types.Basic:
		if j.t == nil {
			return zero(t)
		}
		info := u.Info()
		switch {
		case info&types.IsString != 0:
			switch j.v.(type) {
			case string, symStr, opaqueStr, *blob:
				return j.v
			}
			panic(jsonError{"cannot unmarshal " + j.t.String() + " into string"})
		case info&types.IsBoolean != 0:
			switch j.v.(type) {
			case bool, *Term:
				if jt, ok := j.t.Underlying().(*types.Basic); ok && jt.Info()&types.IsBoolean != 0 {
					return j.v
				}
			}
			panic(jsonError{"cannot unmarshal " + j.t.String() + " into bool"})
		case info&types.IsInteger != 0:
			jb, ok := j.t.Underlying().(*types.Basic)
			if !ok || jb.Info()&types.IsNumeric == 0 {
				panic(jsonError{"cannot unmarshal " + j.t.String() + " into integer"})
			}
			if f, ok := j.v.(float64); ok {
				if f != float64(int64(f)) {
					panic(jsonError{"cannot unmarshal float into integer"})
				}
				return i.conv(t, tInt64, int64(f))
			}
			return i.conv(t, j.t, j.v)
		case info&types.IsFloat != 0:
			jb, ok := j.t.Underlying().(*types.Basic)
			if !ok || jb.Info()&types.IsNumeric == 0 {
				panic(jsonError{"cannot unmarshal " + j.t.String() + " into float"})
			}
			return i.conv(t, j.t, j.v)
		}
	case *types.Pointer:
		if j.t == nil {
			return (*value)(nil)
		}
		c := new(value)
		*c = i.fromJSON(u.Elem(), j, depth+1)
		return c
	case *types.Interface:
		if u.NumMethods() != 0 {
			if j.t == nil {
				return iface{}
			}
			panic(unsupported("JSON into non-empty interface " + t.String()))
		}
		if j.t == nil {
			return iface{}
		}
		return iface{t: j.t, v: deepCopyValue(j.v, map[*value]*value{})}
	case *types.Struct:
		z := zero(t).(structure)
		if j.t == nil {
			return z
		}
		m, ok := j.v.(*gomap)
		if !ok {
			panic(jsonError{"cannot unmarshal " + j.t.String() + " into struct " + t.String()})
		}
		i.structFromJSON(u, z, m, depth)
		return z
	case *types.Map:
		if j.t == nil {
			return (*gomap)(nil)
		}
		m, ok := j.v.(*gomap)
		if !ok {
			panic(jsonError{"cannot unmarshal " + j.t.String() + " into map"})
		}
		out := newMap()
		for k := range m.keys {
			out.set(m.keys[k], i.fromJSON(u.Elem(), m.vals[k].(iface), depth+1))
		}
		return out
	case *types.Slice:
		if j.t == nil {
			return []value(nil)
		}
		s, ok := j.v.([]value)
		if !ok {
			panic(jsonError{"cannot unmarshal " + j.t.String() + " into slice"})
		}
		out := make([]value, len(s))
		for k := range s {
			out[k] = i.fromJSON(u.Elem(), s[k].(iface), depth+1)
		}
		return out
	}
	panic(unsupported("JSON into type " + t.String()))
}

func (i *interpreter) structFromJSON(st *types.Struct, z structure, m *gomap, depth int) {
	for _, f := range jsonFields(st) {
		if f.inline {
			ft := f.typ
			if p, ok := ft.Underlying().(*types.Pointer); ok {
				if ist, ok := p.Elem().Underlying().(*types.Struct); ok {
					c := new(value)
					*c = zero(p.Elem())
					i.structFromJSON(ist, (*c).(structure), m, depth+1)
					z[f.index] = c
					continue
				}
			}
			if ist, ok := ft.Underlying().(*types.Struct); ok && typeKey(ft) != "k8s.io/apimachinery/pkg/apis/meta/v1.Time" {
				i.structFromJSON(ist, z[f.index].(structure), m, depth+1)
				continue
			}
		}
		jv, ok := m.get(f.name)
		if !ok {
			// encoding/json matches case-insensitively
			for k := range m.keys {
				if ks, _ := m.keys[k].(string); strings.EqualFold(ks, f.name) {
					jv, ok = m.vals[k], true
					break
				}
			}
		}
		if !ok {
			continue
		}
		z[f.index] = i.fromJSON(f.typ, jv.(iface), depth+1)
	}
}

func (i *interpreter) jsonErrorValue(msg string) value {
	return i.mkError("json: " + msg)
}

// nativeJSONToValue converts the result of a native json.Unmarshal into interface{} to the engine's generic JSON form.
func (i *interpreter) nativeJSONToValue(x interface{}) iface {
	switch v := x.(type) {
	case nil:
		return iface{}
	case string:
		return iface{tString, v}
	case bool:
		return iface{tBool, v}
	case float64:
		return iface{tFloat64, v}
	case []interface{}:
		out := make([]value, len(v))
		for k := range v {
			out[k] = i.nativeJSONToValue(v[k])
		}
		return iface{i.tSliceAny(), out}
	case map[string]interface{}:
		keys := make([]string, 0, len(v))
		for k := range v {
			keys = append(keys, k)
		}
		sort.Strings(keys)
		m := newMap()
		for _, k := range keys {
			m.set(k, i.nativeJSONToValue(v[k]))
		}
		return iface{i.tMapStringAny(), m}
	}
	panic(unsupported(fmt.Sprintf("native JSON value %T", x)))
}

// jsonMergeDiff computes the RFC 7386 merge patch that turns orig into mod (both in generic JSON form).
func (i *interpreter) jsonMergeDiff(orig, mod iface) (iface, bool) {
	om, ok1 := orig.v.(*gomap)
	mm, ok2 := mod.v.(*gomap)
	if !ok1 || !ok2 || orig.t == nil || mod.t == nil {
		if orig.t == nil && mod.t == nil {
			return iface{}, false
		}
		if orig.t != nil && mod.t != nil && types.Identical(orig.t, mod.t) {
			eq := i.deepEqual(orig.t, orig.v, mod.v, deepReflect, 0)
			b, isBool := eq.(bool)
			if !isBool {
				b = i.path.decideBool(eq.(*Term))
			}
			if b {
				return iface{}, false
			}
		}
		return mod, true
	}
	out := newMap()
	for k := range mm.keys {
		mv := mm.vals[k].(iface)
		ov, present := om.get(mm.keys[k])
		if !present {
			out.set(mm.keys[k], mv)
			continue
		}
		if d, changed := i.jsonMergeDiff(ov.(iface), mv); changed {
			out.set(mm.keys[k], d)
		}
	}
	for k := range om.keys {
		if _, present := mm.get(om.keys[k]); !present {
			out.set(om.keys[k], iface{}) // null removes the key
		}
	}
	return iface{i.tMapStringAny(), out}, out.len() > 0
}

func registerJSONIntrinsics(e *Engine) {
	e.reg("github.com/evanphx/json-patch/v5.CreateMergePatch", func(fr *frame, args []value) value {
		i := fr.i
		a, ok1 := args[0].(*blob)
		b, ok2 := args[1].(*blob)
		if !ok1 || !ok2 {
			panic(unsupported("CreateMergePatch on concrete bytes"))
		}
		d, changed := i.jsonMergeDiff(iface{a.t, a.raw}, iface{b.t, b.raw})
		if !changed {
			d = iface{i.tMapStringAny(), newMap()}
		}
		return tuple{&blob{t: d.t, raw: d.v}, iface{}}
	})
	marshal := func(fr *frame, args []value) value {
		i := fr.i
		v := args[0].(iface)
		if v.t == nil {
			return tuple{&blob{text: "null"}, iface{}}
		}
		j := i.toJSON(v.t, v.v, 0)
		b := &blob{t: j.t, raw: j.v}
		// a size attached with verifrt.SetJSONSize to the source map travels with the blob
		src := v.v
		for {
			if st, ok := src.(structure); ok && len(st) == 1 {
				src = st[0]
				continue
			}
			if p, ok := src.(*value); ok && p != nil {
				src = *p
				continue
			}
			break
		}
		if m, ok := src.(*gomap); ok && m != nil {
			if sz, ok := i.jsonSizes[m]; ok {
				b.size = sz
			}
		}
		if typeKey(v.t) == "k8s.io/apimachinery/pkg/apis/meta/v1/unstructured.Unstructured" {
			// a non-addressable Unstructured *value* does not reach its pointer-receiver MarshalJSON: encoding/json
			// encodes the struct, {"Object":{...}}
			w := newMap()
			w.set("Object", iface{b.t, b.raw})
			b.t, b.raw = i.tMapStringAny(), w
			if b.size != nil {
				b.size = i.binop(token.ADD, tInt64, b.size, int64(len(`{"Object":}`)))
			}
		}
		return tuple{b, iface{}}
	}
	unmarshal := func(fr *frame, args []value) (res value) {
		i := fr.i
		tgt := args[1].(iface)
		pt, ok := tgt.t.Underlying().(*types.Pointer)
		if !ok || tgt.v.(*value) == nil {
			return i.jsonErrorValue("Unmarshal(non-pointer)")
		}
		var j iface
		switch b := args[0].(type) {
		case *blob:
			if b.raw == nil && b.t == nil {
				if b.text == "null" || b.text == "" {
					j = iface{}
				} else {
					var nat interface{}
					if e := stdjson.Unmarshal([]byte(b.text), &nat); e != nil {
						return i.jsonErrorValue(e.Error())
					}
					j = i.nativeJSONToValue(nat)
				}
			} else {
				j = iface{b.t, b.raw}
			}
		case []value:
			bs := make([]byte, len(b))
			for k := range b {
				c, ok := b[k].(byte)
				if !ok {
					panic(unsupported("Unmarshal of symbolic bytes"))
				}
				bs[k] = c
			}
			var nat interface{}
			if e := stdjson.Unmarshal(bs, &nat); e != nil {
				return i.jsonErrorValue(e.Error())
			}
			j = i.nativeJSONToValue(nat)
		default:
			panic(unsupported(fmt.Sprintf("Unmarshal of %T", b)))
		}
		defer func() {
			if r := recover(); r != nil {
				if je, ok := r.(jsonError); ok {
					res = i.jsonErrorValue(je.msg)
					return
				}
				panic(r)
			}
		}()
		nv := i.fromJSON(pt.Elem(), j, 0)
		if j.t == nil {
			return iface{} // null leaves the target unchanged
		}
		store(pt.Elem(), tgt.v.(*value), nv)
		return iface{}
	}
	e.reg("encoding/json.Marshal", marshal)
	e.reg("encoding/json.Unmarshal", unmarshal)
	e.reg("sigs.k8s.io/yaml.Marshal", marshal)
	// YAML: concrete bytes are converted by the real sigs.k8s.io/yaml (linked into the engine) and then take the JSON
	// path; blobs are JSON already (YAML is a superset).
	yamlUnmarshal := func(strict bool) intrinsic {
		return func(fr *frame, args []value) value {
			if b, ok := args[0].([]value); ok {
				bs := make([]byte, len(b))
				for k := range b {
					c, ok := b[k].(byte)
					if !ok {
						panic(unsupported("yaml.Unmarshal of symbolic bytes"))
					}
					bs[k] = c
				}
				var j []byte
				var err error
				if strict {
					j, err = sigsyaml.YAMLToJSONStrict(bs)
				} else {
					j, err = sigsyaml.YAMLToJSON(bs)
				}
				if err != nil {
					return fr.i.mkError("error converting YAML to JSON: " + err.Error())
				}
				return unmarshal(fr, []value{&blob{text: string(j)}, args[1]})
			}
			return unmarshal(fr, args[:2])
		}
	}
	e.reg("sigs.k8s.io/yaml.Unmarshal", yamlUnmarshal(false))
	e.reg("sigs.k8s.io/yaml.UnmarshalStrict", yamlUnmarshal(true))
	e.reg("k8s.io/apimachinery/pkg/util/json.Marshal", marshal)
	e.reg("k8s.io/apimachinery/pkg/util/json.Unmarshal", unmarshal)
	// DefaultUnstructuredConverter
	e.reg("(*k8s.io/apimachinery/pkg/runtime.unstructuredConverter).ToUnstructured", func(fr *frame, args []value) value {
		i := fr.i
		v := args[1].(iface)
		if v.t == nil {
			return tuple{(*gomap)(nil), i.mkError("ToUnstructured requires a non-nil pointer to an object")}
		}
		j := i.toJSON(v.t, v.v, 0)
		m, ok := j.v.(*gomap)
		if !ok {
			return tuple{(*gomap)(nil), i.mkError("ToUnstructured: not an object")}
		}
		return tuple{m, iface{}}
	})
	e.reg("(*k8s.io/apimachinery/pkg/runtime.unstructuredConverter).FromUnstructured", func(fr *frame, args []value) (res value) {
		i := fr.i
		m := args[1].(*gomap)
		tgt := args[2].(iface)
		pt, ok := tgt.t.Underlying().(*types.Pointer)
		if !ok || tgt.v.(*value) == nil {
			return i.mkError("FromUnstructured requires a non-nil pointer")
		}
		defer func() {
			if r := recover(); r != nil {
				if je, ok := r.(jsonError); ok {
					res = i.jsonErrorValue(je.msg)
					return
				}
				panic(r)
			}
		}()
		nv := i.fromJSON(pt.Elem(), iface{i.tMapStringAny(), m}, 0)
		store(pt.Elem(), tgt.v.(*value), nv)
		return iface{}
	})
}
