package symgo

// Goroutines, channels and locks under a controlled scheduler.
//
// Target goroutines are real goroutines that hand a baton to each other, so exactly one of them runs at any
// time. At every visible operation (lock, unlock, channel send/receive/close, go, goroutine exit) the scheduler
// picks the thread to run next through a recorded decision (Path.choose), which makes schedules enumerable by
// the decision-prefix exploration and replayable. Pre-emptions (switching away from a thread that could go on)
// are bounded by Engine.MaxSwitches; forced switches (the running thread blocks or exits) are not counted.

import (
	"fmt"
	"go/types"

	"golang.org/x/tools/go/ssa"
)

type gochan struct {
	buf    []value
	cap    int
	closed bool
	sendq  []*pendingSend // senders parked on an unbuffered channel
}

type pendingSend struct {
	v    value
	done bool
}

type thread struct {
	id      int
	wake    chan struct{}
	done    bool
	blocked func() bool // non-nil while parked: still blocked?
}

type scheduler struct {
	threads     []*thread
	cur         *thread
	preemptions int
	abort       interface{} // panic value raised in a non-main thread; re-raised in the main thread
	killed      bool
}

type threadExit struct{}

func deadlockPanic() targetPanic {
	return targetPanic{"fatal error: all goroutines are asleep - deadlock!"}
}

func (i *interpreter) runMain(fn *ssa.Function) {
	main := &thread{id: 0, wake: make(chan struct{}, 1)}
	s := &scheduler{threads: []*thread{main}, cur: main}
	i.sched = s
	defer i.killThreads()
	call(i, nil, 0, fn, nil)
	// the harness returned: let the remaining goroutines run to completion (or deadlock among themselves, which
	// is a goroutine leak, not a crash, and is left to the harness to assert on)
	main.done = true
	for {
		if s.abort != nil {
			panic(s.abort)
		}
		en := s.enabled()
		if len(en) == 0 {
			return
		}
		i.transfer(i.pick(en, false))
	}
}

// killThreads releases every parked goroutine at the end of a path.
func (i *interpreter) killThreads() {
	s := i.sched
	s.killed = true
	for _, t := range s.threads[1:] {
		if !t.done {
			select {
			case t.wake <- struct{}{}:
			default:
			}
		}
	}
}

func (s *scheduler) enabled() []*thread {
	var out []*thread
	for _, t := range s.threads {
		if t.done {
			continue
		}
		if t.blocked != nil && t.blocked() {
			continue
		}
		out = append(out, t)
	}
	return out
}

// pick chooses among the enabled threads; the current thread (if enabled) is alternative 0 so that the first
// explored schedule runs each goroutine as long as possible.
func (i *interpreter) pick(en []*thread, countPreemption bool) *thread {
	s := i.sched
	if len(en) == 1 {
		return en[0]
	}
	ordered := en
	curEnabled := false
	for k, t := range en {
		if t == s.cur {
			curEnabled = true
			ordered = append([]*thread{t}, append(append([]*thread{}, en[:k]...), en[k+1:]...)...)
		}
	}
	n := len(ordered)
	if curEnabled && countPreemption && s.preemptions >= i.eng.MaxSwitches {
		return s.cur
	}
	k := i.path.choose(n, nil)
	if curEnabled && k != 0 {
		s.preemptions++
	}
	return ordered[k]
}

// transfer hands the baton to next and parks the calling goroutine until it is woken again.
func (i *interpreter) transfer(next *thread) {
	s := i.sched
	me := s.cur
	if next == me {
		return
	}
	s.cur = next
	next.wake <- struct{}{}
	<-me.wake
	if s.killed && me.id != 0 {
		panic(threadExit{})
	}
	if s.abort != nil && me.id == 0 {
		panic(s.abort)
	}
}

// yield is a scheduling point at a visible operation of a runnable thread.
func (i *interpreter) yield(_ bool) bool {
	s := i.sched
	if s == nil || len(s.threads) == 1 || i.initDepth > 0 {
		return false // package initialisation (run lazily by whichever goroutine gets there first) is atomic
	}
	en := s.enabled()
	if len(en) == 0 {
		return false
	}
	i.transfer(i.pick(en, true))
	return true
}

// block parks the current thread while cond() holds.
func (i *interpreter) block(cond func() bool) {
	s := i.sched
	me := s.cur
	for cond() {
		me.blocked = cond
		en := s.enabled()
		if len(en) == 0 {
			me.blocked = nil
			if me.id == 0 {
				panic(deadlockPanic())
			}
			// every goroutine is asleep: report through the main thread
			if s.abort == nil {
				s.abort = deadlockPanic()
			}
			i.finishThread(me)
		}
		i.transfer(i.pick(en, false))
		me.blocked = nil
	}
}

// finishThread ends a non-main thread: the baton goes to another thread and the goroutine unwinds.
func (i *interpreter) finishThread(me *thread) {
	s := i.sched
	me.done = true
	main := s.threads[0]
	var next *thread
	if s.abort != nil {
		next = main
	} else if en := s.enabled(); len(en) > 0 {
		func() {
			defer func() {
				if r := recover(); r != nil {
					s.abort = r
					next = main
				}
			}()
			next = i.pick(en, false)
		}()
	} else {
		next = main // nobody can run: main decides (it is finished, blocked forever, or sees the abort)
		if !main.done && s.abort == nil {
			s.abort = deadlockPanic()
		}
	}
	s.cur = next
	next.wake <- struct{}{}
	panic(threadExit{})
}

func (i *interpreter) spawn(fr *frame, instr *ssa.Go, fn value, args []value) {
	s := i.sched
	if i.eng.MaxThreads <= 1 {
		panic(unsupported("go statement (goroutines not enabled for this harness)"))
	}
	if len(s.threads) >= i.eng.MaxThreads {
		panic(pathAbort{abortBudget, "thread bound exceeded"})
	}
	t := &thread{id: len(s.threads), wake: make(chan struct{}, 1)}
	s.threads = append(s.threads, t)
	go func() {
		<-t.wake
		if s.killed {
			return
		}
		defer func() {
			r := recover()
			if _, ok := r.(threadExit); ok {
				return // baton already handed on (finishThread) or the path is over
			}
			if r != nil && s.abort == nil {
				// an uncaught panic in a goroutine crashes the program; engine aborts travel the same way
				s.abort = r
			}
			defer func() { recover() }() // finishThread unwinds with threadExit
			i.finishThread(t)
		}()
		call(i, nil, instr.Pos(), fn, args)
	}()
	i.yield(false)
}

func (i *interpreter) makeChan(n int) value {
	return &gochan{cap: n}
}

func (i *interpreter) chanSend(c value, v value) {
	ch, ok := c.(*gochan)
	if !ok || ch == nil {
		i.block(func() bool { return true }) // send on nil channel blocks forever
		return
	}
	if ch.closed {
		panic(targetPanic{"send on closed channel"})
	}
	if ch.cap > 0 {
		i.block(func() bool { return len(ch.buf) >= ch.cap && !ch.closed })
		if ch.closed {
			panic(targetPanic{"send on closed channel"})
		}
		ch.buf = append(ch.buf, v)
		i.yield(false)
		return
	}
	ps := &pendingSend{v: v}
	ch.sendq = append(ch.sendq, ps)
	i.block(func() bool { return !ps.done && !ch.closed })
	if !ps.done && ch.closed {
		panic(targetPanic{"send on closed channel"})
	}
}

func (i *interpreter) chanRecv(c value, elem types.Type, commaOk bool) value {
	ch, ok := c.(*gochan)
	if !ok || ch == nil {
		i.block(func() bool { return true })
		return nil
	}
	i.block(func() bool { return len(ch.buf) == 0 && len(ch.sendq) == 0 && !ch.closed })
	var v value
	got := true
	switch {
	case len(ch.buf) > 0:
		v = ch.buf[0]
		ch.buf = ch.buf[1:]
	case len(ch.sendq) > 0:
		ps := ch.sendq[0]
		ch.sendq = ch.sendq[1:]
		ps.done = true
		v = ps.v
	default:
		v = zero(elem)
		got = false
	}
	i.yield(false)
	if commaOk {
		return tuple{v, got}
	}
	return v
}

func (i *interpreter) chanClose(c value) {
	ch, ok := c.(*gochan)
	if !ok || ch == nil {
		panic(targetPanic{"close of nil channel"})
	}
	if ch.closed {
		panic(targetPanic{"close of closed channel"})
	}
	ch.closed = true
	i.yield(false)
}

func (i *interpreter) doSelect(fr *frame, instr *ssa.Select) value {
	readyCases := func() []int {
		var out []int
		for k, st := range instr.States {
			ch, _ := fr.get(st.Chan).(*gochan)
			if ch == nil {
				continue
			}
			if st.Dir == types.RecvOnly {
				if len(ch.buf) > 0 || len(ch.sendq) > 0 || ch.closed {
					out = append(out, k)
				}
			} else if ch.closed || (ch.cap > 0 && len(ch.buf) < ch.cap) {
				out = append(out, k)
			}
		}
		return out
	}
	rc := readyCases()
	if len(rc) == 0 {
		if !instr.Blocking {
			r := tuple{-1, false}
			for _, st := range instr.States {
				if st.Dir == types.RecvOnly {
					r = append(r, zero(st.Chan.Type().Underlying().(*types.Chan).Elem()))
				}
			}
			return r
		}
		i.block(func() bool { return len(readyCases()) == 0 })
		rc = readyCases()
	}
	k := 0
	if len(rc) > 1 {
		k = i.path.choose(len(rc), nil)
	}
	chosen := rc[k]
	st := instr.States[chosen]
	ch := fr.get(st.Chan).(*gochan)
	r := tuple{chosen, false}
	var recvVal value
	recvOk := false
	if st.Dir == types.RecvOnly {
		rv := i.chanRecv(ch, st.Chan.Type().Underlying().(*types.Chan).Elem(), true).(tuple)
		recvVal, recvOk = rv[0], rv[1].(bool)
	} else {
		i.chanSend(ch, fr.get(st.Send))
	}
	r[1] = recvOk
	for idx, s2 := range instr.States {
		if s2.Dir == types.RecvOnly {
			if idx == chosen {
				r = append(r, recvVal)
			} else {
				r = append(r, zero(s2.Chan.Type().Underlying().(*types.Chan).Elem()))
			}
		}
	}
	return r
}

func (i *interpreter) panicString(p targetPanic) string {
	switch v := p.v.(type) {
	case string:
		return v
	case iface:
		if v.t == nil {
			return "panic(nil)"
		}
		if s, ok := v.v.(string); ok {
			return s
		}
		var out string
		func() {
			defer func() {
				if r := recover(); r != nil {
					out = fmt.Sprintf("panic value of type %s", v.t)
				}
			}()
			out = fmt.Sprintf("%s: %s", v.t, i.valueToText(v))
		}()
		return out
	}
	return fmt.Sprint(p.v)
}
