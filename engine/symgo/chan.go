package symgo

// Goroutines and channels. Threads are real goroutines that hand a baton to each other, so exactly one
// runs at any time; at every visible operation (lock, unlock, channel operation, spawn, exit) the
// scheduler picks the next thread to run by a recorded decision, which makes schedules enumerable
// and replayable.

import (
	"fmt"
	"go/types"

	"golang.org/x/tools/go/ssa"
)

type gochan struct {
	buf    []value
	cap    int
	closed bool
	// rendezvous for unbuffered channels
	sendq []*pendingSend
	recvq []*thread
}

type pendingSend struct {
	t    *thread
	v    value
	done bool
}

type thread struct {
	id      int
	wake    chan struct{}
	done    bool
	blocked func() bool // non-nil: thread is blocked until blocked() returns false
	label   string
}

type scheduler struct {
	threads  []*thread
	cur      *thread
	switches int
	maxSw    int
	trace    []int
	abort    interface{} // panic value to propagate from a non-main thread
}

func (i *interpreter) runMain(fn *ssa.Function) {
	main := &thread{id: 0, wake: make(chan struct{}, 1)}
	i.sched = &scheduler{threads: []*thread{main}, cur: main, maxSw: i.eng.MaxSwitches}
	call(i, nil, 0, fn, nil)
	// let remaining threads finish (the harness main returned)
	i.sched.cur.done = true
	for {
		if !i.yield(true) {
			break
		}
	}
	if i.sched.abort != nil {
		panic(i.sched.abort)
	}
}

func (s *scheduler) enabled() []*thread {
	var out []*thread
	for _, t := range s.threads {
		if t.done {
			continue
		}
		if t.blocked != nil && t.blocked() {
			continue
		}
		out = append(out, t)
	}
	return out
}

// yield is a scheduling point. It returns false if no thread can run (only meaningful when final).
func (i *interpreter) yield(final bool) bool {
	s := i.sched
	if s == nil || len(s.threads) == 1 {
		if s != nil && s.cur.blocked != nil && s.cur.blocked() {
			panic(targetPanic{"fatal error: all goroutines are asleep - deadlock!"})
		}
		return false
	}
	if s.abort != nil {
		if s.cur.id == 0 {
			panic(s.abort)
		}
	}
	en := s.enabled()
	if len(en) == 0 {
		// deadlock if some thread is not done
		for _, t := range s.threads {
			if !t.done {
				if s.cur.id == 0 || final {
					panic(targetPanic{"fatal error: all goroutines are asleep - deadlock!"})
				}
			}
		}
		return false
	}
	var next *thread
	if len(en) == 1 {
		next = en[0]
	} else {
		// prefer to continue the current thread as alternative 0 so that the first schedule is sequential
		ordered := en
		for k, t := range en {
			if t == s.cur {
				ordered = append([]*thread{t}, append(append([]*thread{}, en[:k]...), en[k+1:]...)...)
			}
		}
		n := len(ordered)
		if s.switches >= s.maxSw && ordered[0] == s.cur {
			n = 1 // context-switch bound reached: keep running
		}
		k := i.path.choose(n, nil)
		next = ordered[k]
	}
	if next == s.cur {
		return true
	}
	s.switches++
	prev := s.cur
	s.cur = next
	next.wake <- struct{}{}
	if prev.done {
		if prev.id == 0 {
			// main waits for the baton to come back (or for everything to finish)
			<-prev.wake
			return true
		}
		return true
	}
	<-prev.wake
	if s.abort != nil && prev.id == 0 {
		panic(s.abort)
	}
	return true
}

// block parks the current thread until cond() is false.
func (i *interpreter) block(cond func() bool) {
	s := i.sched
	t := s.cur
	for cond() {
		t.blocked = cond
		if len(s.threads) == 1 {
			panic(targetPanic{"fatal error: all goroutines are asleep - deadlock!"})
		}
		en := s.enabled()
		if len(en) == 0 {
			dead := targetPanic{"fatal error: all goroutines are asleep - deadlock!"}
			if t.id == 0 {
				panic(dead)
			}
			s.abort = dead
			i.exitThread()
		}
		i.yield(false)
		t.blocked = nil
	}
}

func (i *interpreter) spawn(fr *frame, instr *ssa.Go, fn value, args []value) {
	s := i.sched
	if i.eng.MaxThreads <= 1 {
		panic(unsupported("go statement (goroutines not enabled for this harness)"))
	}
	if len(s.threads) >= i.eng.MaxThreads {
		panic(pathAbort{abortBudget, "thread bound exceeded"})
	}
	t := &thread{id: len(s.threads), wake: make(chan struct{}, 1)}
	s.threads = append(s.threads, t)
	go func() {
		<-t.wake
		defer func() {
			if r := recover(); r != nil {
				if _, ok := r.(threadExit); !ok {
					if s.abort == nil {
						s.abort = r
					}
				}
			}
			t.done = true
			// hand the baton on
			en := s.enabled()
			var next *thread
			if s.abort != nil {
				next = s.threads[0]
			} else if len(en) > 0 {
				func() {
					defer func() {
						if r := recover(); r != nil {
							s.abort = r
							next = s.threads[0]
						}
					}()
					k := 0
					if len(en) > 1 {
						k = i.path.choose(len(en), nil)
					}
					next = en[k]
				}()
			} else {
				next = s.threads[0]
				if !next.done || true {
					// main may be blocked forever: report deadlock through it
					for _, o := range s.threads {
						if !o.done && o != t {
							s.abort = targetPanic{"fatal error: all goroutines are asleep - deadlock!"}
						}
					}
				}
			}
			s.cur = next
			next.wake <- struct{}{}
		}()
		call(i, nil, instr.Pos(), fn, args)
	}()
	i.yield(false)
}

type threadExit struct{}

func (i *interpreter) exitThread() { panic(threadExit{}) }

func (i *interpreter) makeChan(n int) value {
	return &gochan{cap: n}
}

func (i *interpreter) chanSend(c value, v value) {
	ch, ok := c.(*gochan)
	if !ok || ch == nil {
		i.block(func() bool { return true })
	}
	if ch.closed {
		panic(targetPanic{"send on closed channel"})
	}
	if ch.cap > 0 {
		i.block(func() bool { return len(ch.buf) >= ch.cap && !ch.closed })
		if ch.closed {
			panic(targetPanic{"send on closed channel"})
		}
		ch.buf = append(ch.buf, v)
		i.yield(false)
		return
	}
	ps := &pendingSend{t: i.sched.cur, v: v}
	ch.sendq = append(ch.sendq, ps)
	i.block(func() bool { return !ps.done && !ch.closed })
	if !ps.done && ch.closed {
		panic(targetPanic{"send on closed channel"})
	}
}

func (i *interpreter) chanRecv(c value, elem types.Type, commaOk bool) value {
	ch, ok := c.(*gochan)
	if !ok || ch == nil {
		i.block(func() bool { return true })
	}
	i.block(func() bool { return len(ch.buf) == 0 && len(ch.sendq) == 0 && !ch.closed })
	var v value
	got := true
	switch {
	case len(ch.buf) > 0:
		v = ch.buf[0]
		ch.buf = ch.buf[1:]
	case len(ch.sendq) > 0:
		ps := ch.sendq[0]
		ch.sendq = ch.sendq[1:]
		ps.done = true
		v = ps.v
	default:
		v = zero(elem)
		got = false
	}
	i.yield(false)
	if commaOk {
		return tuple{v, got}
	}
	return v
}

func (i *interpreter) chanClose(c value) {
	ch, ok := c.(*gochan)
	if !ok || ch == nil {
		panic(targetPanic{"close of nil channel"})
	}
	if ch.closed {
		panic(targetPanic{"close of closed channel"})
	}
	ch.closed = true
	i.yield(false)
}

func (i *interpreter) doSelect(fr *frame, instr *ssa.Select) value {
	type ready struct{ idx int }
	readyCases := func() []int {
		var out []int
		for k, st := range instr.States {
			ch, _ := fr.get(st.Chan).(*gochan)
			if ch == nil {
				continue
			}
			if st.Dir == types.RecvOnly {
				if len(ch.buf) > 0 || len(ch.sendq) > 0 || ch.closed {
					out = append(out, k)
				}
			} else {
				if ch.closed || (ch.cap > 0 && len(ch.buf) < ch.cap) {
					out = append(out, k)
				}
			}
		}
		return out
	}
	rc := readyCases()
	if len(rc) == 0 {
		if !instr.Blocking {
			r := tuple{-1, false}
			for _, st := range instr.States {
				if st.Dir == types.RecvOnly {
					r = append(r, zero(st.Chan.Type().Underlying().(*types.Chan).Elem()))
				}
			}
			return r
		}
		i.block(func() bool { return len(readyCases()) == 0 })
		rc = readyCases()
	}
	k := 0
	if len(rc) > 1 {
		k = i.path.choose(len(rc), nil)
	}
	chosen := rc[k]
	st := instr.States[chosen]
	ch := fr.get(st.Chan).(*gochan)
	r := tuple{chosen, false}
	var recvVal value
	recvOk := false
	if st.Dir == types.RecvOnly {
		rv := i.chanRecv(ch, st.Chan.Type().Underlying().(*types.Chan).Elem(), true).(tuple)
		recvVal, recvOk = rv[0], rv[1].(bool)
	} else {
		i.chanSend(ch, fr.get(st.Send))
	}
	r[1] = recvOk
	for idx, s2 := range instr.States {
		if s2.Dir == types.RecvOnly {
			if idx == chosen {
				r = append(r, recvVal)
			} else {
				r = append(r, zero(s2.Chan.Type().Underlying().(*types.Chan).Elem()))
			}
		}
	}
	return r
}

func (i *interpreter) panicString(p targetPanic) string {
	switch v := p.v.(type) {
	case string:
		return v
	case iface:
		if v.t == nil {
			return "panic(nil)"
		}
		if s, ok := v.v.(string); ok {
			return s
		}
		var out string
		func() {
			defer func() {
				if r := recover(); r != nil {
					out = fmt.Sprintf("panic value of type %s", v.t)
				}
			}()
			out = fmt.Sprintf("%s: %s", v.t, i.valueToText(v))
		}()
		return out
	}
	return fmt.Sprint(p.v)
}
