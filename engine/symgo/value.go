// Copyright 2013 The Go Authors. All rights reserved.
// Use of this source code is governed by a BSD-style
// license that can be found in the LICENSE file.

package symgo

// Values
//
// All interpreter values are "boxed" in the empty interface, value.
// The range of possible dynamic types within value are:
//
// - bool
// - numbers (all built-in int/float/complex types are distinguished)
// - string
// - map[value]value --- maps for which  usesBuiltinMap(keyType)
//   *hashmap        --- maps for which !usesBuiltinMap(keyType)
// - chan value
// - []value --- slices
// - iface --- interfaces.
// - structure --- structs.  Fields are ordered and accessed by numeric indices.
// - array --- arrays.
// - *value --- pointers.  Careful: *value is a distinct type from *array etc.
// - *ssa.Function \
//   *ssa.Builtin   } --- functions.  A nil 'func' is always of type *ssa.Function.
//   *closure      /
// - tuple --- as returned by Return, Next, "value,ok" modes, etc.
// - iter --- iterators from 'range' over map or string.
// - bad --- a poison pill for locals that have gone out of scope.
// - rtype -- the interpreter's concrete implementation of reflect.Type
// - **deferred -- the address of a frame's defer stack for a Defer._Stack.
//
// Note that nil is not on this list.
//
// Pay close attention to whether or not the dynamic type is a pointer.
// The compiler cannot help you since value is an empty interface.

import (
	"bytes"
	"fmt"
	"go/types"
	"io"
	"strings"

	"golang.org/x/tools/go/ssa"
)

type value interface{}

type tuple []value

type array []value

type iface struct {
	t types.Type // never an "untyped" type
	v value
}

type structure []value

// For map, array, *array, slice, string or channel.
type iter interface {
	// next returns a Tuple (key, value, ok).
	// key and value are unaliased, e.g. copies of the sequence element.
	next() tuple
}

type closure struct {
	Fn  *ssa.Function
	Env []value
}

type bad struct{}

type rtype struct {
	t types.Type
}

// reflect.Value struct values don't have a fixed shape, since the
// payload can be a scalar or an aggregate depending on the instance.
// So store (and load) can't simply use recursion over the shape of the
// rhs value, or the lhs, to copy the value; we need the static type
// information.  (We can't make reflect.Value a new basic data type
// because its "structness" is exposed to Go programs.)

// load returns the value of type T in *addr.
func load(T types.Type, addr *value) value {
	switch T := T.Underlying().(type) {
	case *types.Struct:
		v, ok := (*addr).(structure)
		if !ok {
			return *addr // native opaque value (immutable)
		}
		a := make(structure, len(v))
		for i := range a {
			a[i] = load(T.Field(i).Type(), &v[i])
		}
		return a
	case *types.Array:
		v := (*addr).(array)
		a := make(array, len(v))
		for i := range a {
			a[i] = load(T.Elem(), &v[i])
		}
		return a
	default:
		return *addr
	}
}

// store stores value v of type T into *addr.
func store(T types.Type, addr *value, v value) {
	switch T := T.Underlying().(type) {
	case *types.Struct:
		lhs, ok := (*addr).(structure)
		if !ok {
			*addr = v
			return
		}
		rhs := v.(structure)
		for i := range lhs {
			store(T.Field(i).Type(), &lhs[i], rhs[i])
		}
	case *types.Array:
		lhs := (*addr).(array)
		rhs := v.(array)
		for i := range lhs {
			store(T.Elem(), &lhs[i], rhs[i])
		}
	default:
		*addr = v
	}
}

// Prints in the style of built-in println.
// (More or less; in gc println is actually a compiler intrinsic and
// can distinguish println(1) from println(interface{}(1)).)
func writeValue(buf *bytes.Buffer, v value) {
	switch v := v.(type) {
	case nil, bool, int, int8, int16, int32, int64, uint, uint8, uint16, uint32, uint64, uintptr, float32, float64, complex64, complex128, string:
		fmt.Fprintf(buf, "%v", v)

	case *gomap:
		if v == nil {
			buf.WriteString("map[]")
			break
		}
		buf.WriteString("map[")
		for i, k := range v.keys {
			if i > 0 {
				buf.WriteString(" ")
			}
			writeValue(buf, k)
			buf.WriteString(":")
			writeValue(buf, v.vals[i])
		}
		buf.WriteString("]")

	case *Term:
		buf.WriteString("<sym " + trunc(v.smt, 80) + ">")
	case symStr:
		buf.WriteString(v.describe())
	case opaqueStr:
		buf.WriteString("<opaque:" + v.hint + ">")
	case *blob:
		buf.WriteString("<json-blob>")

	case *gochan:
		fmt.Fprintf(buf, "%p", v) // (an address)

	case *value:
		if v == nil {
			buf.WriteString("<nil>")
		} else {
			fmt.Fprintf(buf, "%p", v)
		}

	case iface:
		fmt.Fprintf(buf, "(%s, ", v.t)
		writeValue(buf, v.v)
		buf.WriteString(")")

	case structure:
		buf.WriteString("{")
		for i, e := range v {
			if i > 0 {
				buf.WriteString(" ")
			}
			writeValue(buf, e)
		}
		buf.WriteString("}")

	case array:
		buf.WriteString("[")
		for i, e := range v {
			if i > 0 {
				buf.WriteString(" ")
			}
			writeValue(buf, e)
		}
		buf.WriteString("]")

	case []value:
		buf.WriteString("[")
		for i, e := range v {
			if i > 0 {
				buf.WriteString(" ")
			}
			writeValue(buf, e)
		}
		buf.WriteString("]")

	case *ssa.Function, *ssa.Builtin, *closure:
		fmt.Fprintf(buf, "%p", v) // (an address)

	case rtype:
		buf.WriteString(v.t.String())

	case tuple:
		// Unreachable in well-formed Go programs
		buf.WriteString("(")
		for i, e := range v {
			if i > 0 {
				buf.WriteString(", ")
			}
			writeValue(buf, e)
		}
		buf.WriteString(")")

	default:
		fmt.Fprintf(buf, "<%T>", v)
	}
}

// Implements printing of Go values in the style of built-in println.
func toString(v value) string {
	var b bytes.Buffer
	writeValue(&b, v)
	return b.String()
}

// ------------------------------------------------------------------------
// Iterators

type stringIter struct {
	*strings.Reader
	i int
}

func (it *stringIter) next() tuple {
	okv := make(tuple, 3)
	ch, n, err := it.ReadRune()
	ok := err != io.EOF && err == nil
	okv[0] = ok
	if ok {
		okv[1] = it.i
		okv[2] = ch
	}
	it.i += n
	return okv
}

// ------------------------------------------------------------------------
// Maps: insertion-ordered, keyed by a canonical string of the (concrete) key.

type gomap struct {
	keys []value
	vals []value
	idx  map[string]int
}

func newMap() *gomap { return &gomap{idx: map[string]int{}} }

func (m *gomap) len() int {
	if m == nil {
		return 0
	}
	return len(m.keys)
}

func (m *gomap) get(k value) (value, bool) {
	if m == nil {
		return nil, false
	}
	i, ok := m.idx[keyStr(k)]
	if !ok {
		return nil, false
	}
	return m.vals[i], true
}

func (m *gomap) set(k, v value) {
	if m == nil {
		panic(targetPanic{"assignment to entry in nil map"})
	}
	ks := keyStr(k)
	if i, ok := m.idx[ks]; ok {
		m.vals[i] = v
		return
	}
	m.idx[ks] = len(m.keys)
	m.keys = append(m.keys, k)
	m.vals = append(m.vals, v)
}

func (m *gomap) del(k value) {
	if m == nil {
		return
	}
	ks := keyStr(k)
	i, ok := m.idx[ks]
	if !ok {
		return
	}
	delete(m.idx, ks)
	m.keys = append(m.keys[:i:i], m.keys[i+1:]...)
	m.vals = append(m.vals[:i:i], m.vals[i+1:]...)
	for j := i; j < len(m.keys); j++ {
		m.idx[keyStr(m.keys[j])] = j
	}
}

// keyStr returns a canonical string for a concrete, comparable value.
func keyStr(k value) string {
	switch k := k.(type) {
	case string:
		return "s:" + k
	case bool, int, int8, int16, int32, int64, uint, uint8, uint16, uint32, uint64, uintptr, float32, float64:
		return fmt.Sprintf("%T:%v", k, k)
	case *value:
		return fmt.Sprintf("p:%p", k)
	case *gochan:
		return fmt.Sprintf("c:%p", k)
	case iface:
		if k.t == nil {
			return "I<nil>"
		}
		return "I(" + k.t.String() + ")" + keyStr(k.v)
	case structure:
		var sb strings.Builder
		sb.WriteString("{")
		for _, f := range k {
			sb.WriteString(keyStr(f))
			sb.WriteString(",")
		}
		sb.WriteString("}")
		return sb.String()
	case array:
		var sb strings.Builder
		sb.WriteString("[")
		for _, f := range k {
			sb.WriteString(keyStr(f))
			sb.WriteString(",")
		}
		sb.WriteString("]")
		return sb.String()
	case rtype:
		return "T:" + k.t.String()
	case *nativeVal:
		return fmt.Sprintf("n:%v", k.v.Interface())
	case *Term:
		if k.cst {
			return fmt.Sprintf("t%d:%d", k.w, k.val)
		}
		panic(unsupported("symbolic integer/bool used as map key: " + trunc(k.smt, 80)))
	case symStr, opaqueStr:
		panic(unsupported("symbolic string used as map key without concretisation"))
	}
	panic(unsupported(fmt.Sprintf("unhashable map key %T", k)))
}

type mapIter struct {
	m    *gomap
	keys []value
	i    int
}

func (it *mapIter) next() tuple {
	for it.i < len(it.keys) {
		k := it.keys[it.i]
		it.i++
		if v, ok := it.m.get(k); ok {
			return []value{true, k, v}
		}
	}
	return []value{false, nil, nil}
}
