package symgo

// Symbolic terms: booleans and fixed-width bit-vectors, rendered to SMT-LIB2.
// Terms are immutable; the SMT text is built eagerly (terms in the harnesses are small).

import (
	"fmt"
	"strings"
)

type Term struct {
	w    int    // 0 = Bool, otherwise bit-vector width
	smt  string // SMT-LIB2 rendering
	cst  bool   // is a constant
	val  uint64 // constant value (bool: 0/1), truncated to width
	isv  bool   // is a variable
	op   string
	args []*Term
}

func (t *Term) String() string { return t.smt }
func (t *Term) IsBool() bool   { return t.w == 0 }

func mask(w int) uint64 {
	if w >= 64 {
		return ^uint64(0)
	}
	return (uint64(1) << uint(w)) - 1
}

func mkBool(b bool) *Term {
	if b {
		return termTrue
	}
	return termFalse
}

var (
	termTrue  = &Term{w: 0, smt: "true", cst: true, val: 1}
	termFalse = &Term{w: 0, smt: "false", cst: true, val: 0}
)

func mkBV(v uint64, w int) *Term {
	v &= mask(w)
	var s string
	if w%4 == 0 {
		s = fmt.Sprintf("#x%0*x", w/4, v)
	} else {
		s = fmt.Sprintf("(_ bv%d %d)", v, w)
	}
	return &Term{w: w, smt: s, cst: true, val: v}
}

func mkVar(name string, w int) *Term {
	return &Term{w: w, smt: name, isv: true, op: "var"}
}

func sortOf(w int) string {
	if w == 0 {
		return "Bool"
	}
	return fmt.Sprintf("(_ BitVec %d)", w)
}

func app(w int, op string, args ...*Term) *Term {
	var sb strings.Builder
	sb.WriteByte('(')
	sb.WriteString(op)
	for _, a := range args {
		sb.WriteByte(' ')
		sb.WriteString(a.smt)
	}
	sb.WriteByte(')')
	return &Term{w: w, smt: sb.String(), op: op, args: args}
}

func signed(v uint64, w int) int64 {
	v &= mask(w)
	if w < 64 && v&(uint64(1)<<uint(w-1)) != 0 {
		return int64(v | ^mask(w))
	}
	return int64(v)
}

func tNot(a *Term) *Term {
	if a.cst {
		return mkBool(a.val == 0)
	}
	if a.op == "not" {
		return a.args[0]
	}
	return app(0, "not", a)
}

func tAnd(a, b *Term) *Term {
	if a.cst {
		if a.val == 0 {
			return termFalse
		}
		return b
	}
	if b.cst {
		if b.val == 0 {
			return termFalse
		}
		return a
	}
	if a.smt == b.smt {
		return a
	}
	return app(0, "and", a, b)
}

func tOr(a, b *Term) *Term {
	if a.cst {
		if a.val != 0 {
			return termTrue
		}
		return b
	}
	if b.cst {
		if b.val != 0 {
			return termTrue
		}
		return a
	}
	if a.smt == b.smt {
		return a
	}
	return app(0, "or", a, b)
}

func tEq(a, b *Term) *Term {
	if a.w != b.w {
		panic(unsupported(fmt.Sprintf("term eq width mismatch %d vs %d: %s %s", a.w, b.w, a.smt, b.smt)))
	}
	if a.cst && b.cst {
		return mkBool(a.val == b.val)
	}
	if a.smt == b.smt {
		return termTrue
	}
	if a.w == 0 {
		if a.cst {
			if a.val != 0 {
				return b
			}
			return tNot(b)
		}
		if b.cst {
			if b.val != 0 {
				return a
			}
			return tNot(a)
		}
	}
	return app(0, "=", a, b)
}

func tIte(c, a, b *Term) *Term {
	if c.cst {
		if c.val != 0 {
			return a
		}
		return b
	}
	if a.smt == b.smt {
		return a
	}
	return app(a.w, "ite", c, a, b)
}

// bvBin builds a binary bit-vector operation with constant folding.
func bvBin(op string, a, b *Term) *Term {
	if a.w != b.w {
		panic(unsupported(fmt.Sprintf("bv width mismatch %s: %d vs %d", op, a.w, b.w)))
	}
	w := a.w
	if a.cst && b.cst {
		x, y := a.val, b.val
		switch op {
		case "bvadd":
			return mkBV(x+y, w)
		case "bvsub":
			return mkBV(x-y, w)
		case "bvmul":
			return mkBV(x*y, w)
		case "bvand":
			return mkBV(x&y, w)
		case "bvor":
			return mkBV(x|y, w)
		case "bvxor":
			return mkBV(x^y, w)
		case "bvshl":
			if y >= uint64(w) {
				return mkBV(0, w)
			}
			return mkBV(x<<y, w)
		case "bvlshr":
			if y >= uint64(w) {
				return mkBV(0, w)
			}
			return mkBV(x>>y, w)
		case "bvashr":
			s := signed(x, w)
			if y >= uint64(w) {
				y = uint64(w - 1)
			}
			return mkBV(uint64(s>>y), w)
		case "bvudiv":
			if y != 0 {
				return mkBV(x/y, w)
			}
		case "bvurem":
			if y != 0 {
				return mkBV(x%y, w)
			}
		case "bvsdiv":
			if y != 0 {
				sx, sy := signed(x, w), signed(y, w)
				if !(sy == -1 && sx == signed(uint64(1)<<uint(w-1), w)) {
					return mkBV(uint64(sx/sy), w)
				}
			}
		case "bvsrem":
			if y != 0 {
				sx, sy := signed(x, w), signed(y, w)
				if sy != -1 {
					return mkBV(uint64(sx%sy), w)
				}
				return mkBV(0, w)
			}
		}
	}
	return app(w, op, a, b)
}

// bvCmp builds a comparison (result Bool).
func bvCmp(op string, a, b *Term) *Term {
	if a.w != b.w {
		panic(unsupported(fmt.Sprintf("bv cmp width mismatch %s: %d vs %d", op, a.w, b.w)))
	}
	if a.cst && b.cst {
		w := a.w
		switch op {
		case "bvult":
			return mkBool(a.val < b.val)
		case "bvule":
			return mkBool(a.val <= b.val)
		case "bvugt":
			return mkBool(a.val > b.val)
		case "bvuge":
			return mkBool(a.val >= b.val)
		case "bvslt":
			return mkBool(signed(a.val, w) < signed(b.val, w))
		case "bvsle":
			return mkBool(signed(a.val, w) <= signed(b.val, w))
		case "bvsgt":
			return mkBool(signed(a.val, w) > signed(b.val, w))
		case "bvsge":
			return mkBool(signed(a.val, w) >= signed(b.val, w))
		}
	}
	return app(0, op, a, b)
}

func bvNeg(a *Term) *Term {
	if a.cst {
		return mkBV(-a.val, a.w)
	}
	return app(a.w, "bvneg", a)
}

func bvNot(a *Term) *Term {
	if a.cst {
		return mkBV(^a.val, a.w)
	}
	return app(a.w, "bvnot", a)
}

// bvResize converts a to width w, sign- or zero-extending according to srcSigned.
func bvResize(a *Term, w int, srcSigned bool) *Term {
	if a.w == w {
		return a
	}
	if a.cst {
		if w > a.w && srcSigned {
			return mkBV(uint64(signed(a.val, a.w)), w)
		}
		return mkBV(a.val, w)
	}
	if w < a.w {
		t := app(w, fmt.Sprintf("(_ extract %d 0)", w-1), a)
		return t
	}
	if srcSigned {
		return app(w, fmt.Sprintf("(_ sign_extend %d)", w-a.w), a)
	}
	return app(w, fmt.Sprintf("(_ zero_extend %d)", w-a.w), a)
}
