package symgo

// Native evaluation of pure standard-library functions on concrete arguments (the real Go function is
// called), and native opaque types (time.Time).

import (
	"bytes"
	"fmt"
	"go/token"
	"go/types"
	"math/bits"
	"path"
	"path/filepath"
	"reflect"
	"regexp"
	"strconv"
	"strings"
	"time"
	"unicode"
	"unicode/utf8"

	"golang.org/x/tools/go/ssa"
)

const addToken = token.ADD

var nativeFuncs = map[string]interface{}{
	"strings.Split": strings.Split, "strings.SplitN": strings.SplitN, "strings.Join": strings.Join,
	"strings.HasPrefix": strings.HasPrefix, "strings.HasSuffix": strings.HasSuffix, "strings.Contains": strings.Contains,
	"strings.ContainsRune": strings.ContainsRune, "strings.ContainsAny": strings.ContainsAny,
	"strings.Index": strings.Index, "strings.IndexByte": strings.IndexByte, "strings.IndexRune": strings.IndexRune,
	"strings.IndexAny": strings.IndexAny, "strings.LastIndex": strings.LastIndex, "strings.LastIndexByte": strings.LastIndexByte,
	"strings.TrimSpace": strings.TrimSpace, "strings.Trim": strings.Trim, "strings.TrimLeft": strings.TrimLeft,
	"strings.TrimRight": strings.TrimRight, "strings.TrimPrefix": strings.TrimPrefix, "strings.TrimSuffix": strings.TrimSuffix,
	"strings.ToLower": strings.ToLower, "strings.ToUpper": strings.ToUpper, "strings.Title": strings.Title,
	"strings.Replace": strings.Replace, "strings.ReplaceAll": strings.ReplaceAll, "strings.Repeat": strings.Repeat,
	"strings.Fields": strings.Fields, "strings.EqualFold": strings.EqualFold, "strings.Count": strings.Count,
	"strings.Compare": strings.Compare, "strings.Cut": strings.Cut, "strings.CutPrefix": strings.CutPrefix,
	"strings.CutSuffix": strings.CutSuffix, "strings.SplitAfter": strings.SplitAfter, "strings.SplitAfterN": strings.SplitAfterN,
	"strings.ToValidUTF8": strings.ToValidUTF8,
	"strconv.Quote":       strconv.Quote, "strconv.FormatBool": strconv.FormatBool, "strconv.FormatUint": strconv.FormatUint,
	"strconv.ParseBool": strconv.ParseBool, "strconv.ParseUint": strconv.ParseUint, "strconv.ParseFloat": strconv.ParseFloat,
	"strconv.Unquote": strconv.Unquote, "strconv.FormatFloat": strconv.FormatFloat, "strconv.AppendInt": nil,
	"path.Base": path.Base, "path.Dir": path.Dir, "path.Join": path.Join, "path.Clean": path.Clean, "path.Ext": path.Ext,
	"path.Match":         path.Match,
	"path/filepath.Base": filepath.Base, "path/filepath.Dir": filepath.Dir, "path/filepath.Join": filepath.Join,
	"path/filepath.Clean": filepath.Clean, "path/filepath.Ext": filepath.Ext, "path/filepath.Match": filepath.Match,
	"path/filepath.ToSlash": filepath.ToSlash, "path/filepath.FromSlash": filepath.FromSlash, "path/filepath.Rel": filepath.Rel,
	"path/filepath.IsAbs": filepath.IsAbs, "path/filepath.Split": filepath.Split,
	"unicode.IsLetter": unicode.IsLetter, "unicode.IsDigit": unicode.IsDigit, "unicode.IsSpace": unicode.IsSpace,
	"unicode.IsUpper": unicode.IsUpper, "unicode.IsLower": unicode.IsLower, "unicode.ToLower": unicode.ToLower,
	"unicode.ToUpper": unicode.ToUpper, "unicode.IsPunct": unicode.IsPunct, "unicode.IsControl": unicode.IsControl,
	"unicode.IsPrint": unicode.IsPrint, "unicode.IsNumber": unicode.IsNumber,
	"unicode/utf8.RuneCountInString": utf8.RuneCountInString, "unicode/utf8.ValidString": utf8.ValidString,
	"unicode/utf8.RuneLen": utf8.RuneLen, "unicode/utf8.DecodeRuneInString": utf8.DecodeRuneInString,
	"unicode/utf8.DecodeLastRuneInString": utf8.DecodeLastRuneInString, "unicode/utf8.ValidRune": utf8.ValidRune,
	"unicode/utf8.EncodeRune": nil,
	"math/bits.Len":           bits.Len, "math/bits.Len64": bits.Len64, "math/bits.Len32": bits.Len32,
	"math/bits.LeadingZeros64": bits.LeadingZeros64, "math/bits.TrailingZeros64": bits.TrailingZeros64,
	"math/bits.TrailingZeros": bits.TrailingZeros, "math/bits.OnesCount64": bits.OnesCount64,
	"time.Now": time.Now, "time.Since": time.Since, "time.Until": time.Until, "time.Unix": time.Unix, "time.Parse": time.Parse,
	"time.ParseDuration": time.ParseDuration, "time.Date": nil, "time.UnixMilli": time.UnixMilli,
	"bytes.Trim": bytes.Trim, "bytes.TrimSpace": bytes.TrimSpace, "bytes.TrimRight": bytes.TrimRight, "bytes.TrimLeft": bytes.TrimLeft,
	"bytes.TrimPrefix": bytes.TrimPrefix, "bytes.TrimSuffix": bytes.TrimSuffix, "bytes.Split": bytes.Split, "bytes.Join": bytes.Join,
	"bytes.Contains": bytes.Contains, "bytes.Equal": bytes.Equal, "bytes.HasPrefix": bytes.HasPrefix, "bytes.HasSuffix": bytes.HasSuffix,
	"bytes.Index": bytes.Index, "bytes.ReplaceAll": bytes.ReplaceAll, "bytes.Fields": bytes.Fields, "bytes.Count": bytes.Count,
	"regexp.MustCompile": regexp.MustCompile, "regexp.Compile": regexp.Compile, "regexp.QuoteMeta": regexp.QuoteMeta,
	"regexp.MatchString": regexp.MatchString,
}

// native opaque named types: values are held as *nativeVal
var nativeTypes = map[string]reflect.Type{
	"time.Time":     reflect.TypeOf(time.Time{}),
	"time.Location": reflect.TypeOf(time.Location{}),
	"regexp.Regexp": reflect.TypeOf(regexp.Regexp{}),
}

func typeKey(t types.Type) string {
	if n, ok := t.(*types.Named); ok && n.Obj().Pkg() != nil {
		return n.Obj().Pkg().Path() + "." + n.Obj().Name()
	}
	return ""
}

func nativeZero(t *types.Named) value {
	if rt, ok := nativeTypes[typeKey(t)]; ok {
		return &nativeVal{v: reflect.Zero(rt)}
	}
	return nil
}

func registerNatives(e *Engine) {}

// nativeFor returns an intrinsic that calls the real function natively, if fn is in the table or is a
// method of a native opaque type.
func (e *Engine) nativeFor(fn *ssa.Function) intrinsic {
	name := fn.String()
	if f, ok := nativeFuncs[name]; ok && f != nil {
		rf := reflect.ValueOf(f)
		return func(fr *frame, args []value) value {
			return fr.i.callNative(fr, rf, args, false)
		}
	}
	// methods on native types: (time.Time).Add, (*time.Time).UnmarshalJSON ...
	if recv := fn.Signature.Recv(); recv != nil {
		rt := recv.Type()
		ptr := false
		if p, ok := rt.(*types.Pointer); ok {
			rt = p.Elem()
			ptr = true
		}
		if _, ok := nativeTypes[typeKey(rt)]; ok {
			mname := fn.Name()
			return func(fr *frame, args []value) value {
				return fr.i.callNativeMethod(fr, mname, ptr, args)
			}
		}
	}
	return nil
}

func (i *interpreter) callNativeMethod(fr *frame, name string, ptrRecv bool, args []value) value {
	var recv reflect.Value
	var cell *value
	if ptrRecv {
		cell = args[0].(*value)
		if cell == nil {
			// nil pointer receiver: allocate typed nil
			rt := nativeTypes[typeKey(mustDeref(fr.fn.Signature.Recv().Type()))]
			recv = reflect.Zero(reflect.PointerTo(rt))
		} else {
			nv := (*cell).(*nativeVal)
			p := reflect.New(nv.v.Type())
			p.Elem().Set(nv.v)
			recv = p
		}
	} else {
		recv = args[0].(*nativeVal).v
	}
	m := recv.MethodByName(name)
	if !m.IsValid() {
		panic(unsupported("native method not found: " + name))
	}
	res := i.callNative(fr, m, args[1:], false)
	if ptrRecv && cell != nil && !recv.IsNil() {
		*cell = &nativeVal{v: recv.Elem()}
	}
	return res
}

func (i *interpreter) callNative(fr *frame, rf reflect.Value, args []value, _ bool) value {
	ft := rf.Type()
	var in []reflect.Value
	for k, a := range args {
		var pt reflect.Type
		if ft.IsVariadic() && k >= ft.NumIn()-1 {
			pt = ft.In(ft.NumIn() - 1)
			if k == ft.NumIn()-1 {
				// SSA passes the variadic slice as one argument
				sl := i.toNative(a, pt)
				for j := 0; j < sl.Len(); j++ {
					in = append(in, sl.Index(j))
				}
				continue
			}
		} else {
			pt = ft.In(k)
		}
		in = append(in, i.toNative(a, pt))
	}
	var out []reflect.Value
	func() {
		defer func() {
			if r := recover(); r != nil {
				panic(targetPanic{fmt.Sprint(r)})
			}
		}()
		out = rf.Call(in)
	}()
	sig := fr.fn.Signature.Results()
	switch len(out) {
	case 0:
		return nil
	case 1:
		return i.fromNative(out[0], sig.At(0).Type())
	}
	t := make(tuple, len(out))
	for k := range out {
		t[k] = i.fromNative(out[k], sig.At(k).Type())
	}
	return t
}

func (i *interpreter) toNative(a value, pt reflect.Type) reflect.Value {
	switch pt.Kind() {
	case reflect.String:
		return reflect.ValueOf(i.concretizeStr(a)).Convert(pt)
	case reflect.Bool:
		b, ok := a.(bool)
		if !ok {
			panic(unsupported("symbolic bool passed to native function"))
		}
		return reflect.ValueOf(b).Convert(pt)
	case reflect.Int, reflect.Int8, reflect.Int16, reflect.Int32, reflect.Int64,
		reflect.Uint, reflect.Uint8, reflect.Uint16, reflect.Uint32, reflect.Uint64, reflect.Uintptr, reflect.Float32, reflect.Float64:
		if t, ok := a.(*Term); ok {
			if !t.cst {
				panic(unsupported("symbolic number passed to native function"))
			}
			return reflect.ValueOf(signed(t.val, t.w)).Convert(pt)
		}
		return reflect.ValueOf(a).Convert(pt)
	case reflect.Slice:
		if a == nil {
			return reflect.Zero(pt)
		}
		s, ok := a.([]value)
		if !ok {
			panic(unsupported(fmt.Sprintf("native slice argument from %T", a)))
		}
		if s == nil {
			return reflect.Zero(pt)
		}
		out := reflect.MakeSlice(pt, len(s), len(s))
		for k := range s {
			out.Index(k).Set(i.toNative(s[k], pt.Elem()))
		}
		return out
	case reflect.Struct:
		if nv, ok := a.(*nativeVal); ok {
			return nv.v
		}
	case reflect.Pointer:
		if p, ok := a.(*value); ok {
			if p == nil {
				return reflect.Zero(pt)
			}
			if nv, ok := (*p).(*nativeVal); ok {
				np := reflect.New(nv.v.Type())
				np.Elem().Set(nv.v)
				return np
			}
		}
	case reflect.Interface:
		if it, ok := a.(iface); ok {
			if it.t == nil {
				return reflect.Zero(pt)
			}
		}
	}
	panic(unsupported(fmt.Sprintf("cannot pass %T to native parameter of type %s", a, pt)))
}

func (i *interpreter) fromNative(v reflect.Value, t types.Type) value {
	switch v.Kind() {
	case reflect.String:
		return v.String()
	case reflect.Bool:
		return v.Bool()
	case reflect.Int, reflect.Int8, reflect.Int16, reflect.Int32, reflect.Int64:
		return fromConstTerm(t, mkBV(uint64(v.Int()), 64))
	case reflect.Uint, reflect.Uint8, reflect.Uint16, reflect.Uint32, reflect.Uint64, reflect.Uintptr:
		return fromConstTerm(t, mkBV(v.Uint(), 64))
	case reflect.Float64:
		return v.Float()
	case reflect.Float32:
		return float32(v.Float())
	case reflect.Slice:
		if v.IsNil() {
			return []value(nil)
		}
		et := t.Underlying().(*types.Slice).Elem()
		out := make([]value, v.Len())
		for k := range out {
			out[k] = i.fromNative(v.Index(k), et)
		}
		return out
	case reflect.Struct:
		if _, ok := nativeTypes[typeKey(t)]; ok {
			c := reflect.New(v.Type()).Elem()
			c.Set(v)
			return &nativeVal{v: c}
		}
	case reflect.Pointer:
		if pt, ok := t.(*types.Pointer); ok {
			if _, ok := nativeTypes[typeKey(pt.Elem())]; ok {
				if v.IsNil() {
					return (*value)(nil)
				}
				var cell value = &nativeVal{v: v.Elem()}
				return &cell
			}
		}
	case reflect.Interface:
		if v.IsNil() {
			return iface{}
		}
		if err, ok := v.Interface().(error); ok {
			return i.mkError(err.Error())
		}
	}
	panic(unsupported(fmt.Sprintf("cannot convert native result of type %s", v.Type())))
}
