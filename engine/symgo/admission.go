package symgo

// Stand-in for packagemanifestvalidation.AdmitPackageConfiguration. The real function runs the apiextensions
// structural-schema pruning, defaulting and the go-openapi validator, none of which the engine can execute. The
// stand-in implements the part of the contract that the callers rely on for flat object schemas without defaults:
// no schema => every configuration key is pruned; otherwise keys that are not schema properties are pruned and each
// name in `required` that is missing yields one field.Required error. Harnesses use schemas of exactly that shape, and
// every run is also executed natively against the real library (path witnesses), which checks the stand-in.

import (
	"go/types"

	"golang.org/x/tools/go/ssa"
)

func structFieldIndex(t types.Type, name string) int {
	st, ok := t.Underlying().(*types.Struct)
	if !ok {
		panic(unsupported("not a struct: " + t.String()))
	}
	for k := 0; k < st.NumFields(); k++ {
		if st.Field(k).Name() == name {
			return k
		}
	}
	panic(unsupported("no field " + name + " in " + t.String()))
}

func registerAdmission(e *Engine) {
	e.reg("package-operator.run/internal/packages/internal/packagemanifestvalidation.AdmitPackageConfiguration", func(fr *frame, args []value) value {
		i := fr.i
		conf, _ := args[1].(*gomap)
		manPtr, _ := args[2].(*value)
		if manPtr == nil {
			panic(nilDeref())
		}
		manT := mustDeref(fr.fn.Signature.Params().At(2).Type())
		man := (*manPtr).(structure)
		specIdx := structFieldIndex(manT, "Spec")
		specT := manT.Underlying().(*types.Struct).Field(specIdx).Type()
		spec := man[specIdx].(structure)
		cfgIdx := structFieldIndex(specT, "Config")
		cfgT := specT.Underlying().(*types.Struct).Field(cfgIdx).Type()
		cfg := spec[cfgIdx].(structure)
		schIdx := structFieldIndex(cfgT, "OpenAPIV3Schema")
		schPT := cfgT.Underlying().(*types.Struct).Field(schIdx).Type()
		schPtr, _ := cfg[schIdx].(*value)
		var errs []value
		if schPtr == nil {
			if conf != nil {
				for _, k := range append([]value{}, conf.keys...) {
					conf.del(k)
				}
			}
			return tuple{errs, iface{}}
		}
		schT := mustDeref(schPT)
		sch := (*schPtr).(structure)
		props, _ := sch[structFieldIndex(schT, "Properties")].(*gomap)
		for _, fld := range []string{"AllOf", "OneOf", "AnyOf", "Not", "PatternProperties", "AdditionalProperties", "Default"} {
			switch v := sch[structFieldIndex(schT, fld)].(type) {
			case []value:
				if len(v) > 0 {
					panic(unsupported("configuration schema outside the stand-in: " + fld))
				}
			case *gomap:
				if v != nil && v.len() > 0 {
					panic(unsupported("configuration schema outside the stand-in: " + fld))
				}
			case *value:
				if v != nil {
					panic(unsupported("configuration schema outside the stand-in: " + fld))
				}
			}
		}
		if conf != nil {
			for _, k := range append([]value{}, conf.keys...) {
				keep := false
				if props != nil {
					_, keep = props.get(k)
				}
				if !keep {
					conf.del(k)
				}
			}
		}
		required, _ := sch[structFieldIndex(schT, "Required")].([]value)
		fieldPkg := i.prog.ImportedPackage("k8s.io/apimachinery/pkg/util/validation/field")
		if fieldPkg == nil {
			panic(unsupported("package field not loaded"))
		}
		pathT := fieldPkg.Type("Path").Type()
		var child *ssa.Function = i.prog.LookupMethod(types.NewPointer(pathT), fieldPkg.Pkg, "Child")
		req := fieldPkg.Func("Required")
		for _, r := range required {
			name := i.concretizeStr(r)
			has := false
			if conf != nil {
				_, has = conf.get(name)
			}
			if has {
				continue
			}
			p := call(i, fr, 0, child, []value{args[3], name, []value(nil)})
			errs = append(errs, call(i, fr, 0, req, []value{p, ""}))
		}
		return tuple{errs, iface{}}
	})
}
