package symgo

// Path state, decisions (decision-prefix re-execution), draws, assertions.

import (
	"fmt"
	"math/rand"
	"sort"
	"strings"

	"golang.org/x/tools/go/ssa"
)

type abortKind int

const (
	abortAssume      abortKind = iota // verifrt.Assume(false): path pruned
	abortInfeasible                   // path condition became unsat
	abortUnsupported                  // construct not supported by the engine: inconclusive
	abortBudget                       // step budget exceeded: inconclusive (unwinding assertion)
	abortStop                         // stop after violation
)

type pathAbort struct {
	kind abortKind
	msg  string
}

func (a pathAbort) Error() string { return fmt.Sprintf("abort(%d): %s", a.kind, a.msg) }

func unsupported(msg string) pathAbort { return pathAbort{abortUnsupported, msg} }

// Draw is one nondeterministic input of the harness, in program order.
type Draw struct {
	Label string   `json:"label"`
	Kind  string   `json:"kind"` // bool | int | choice | string
	W     int      `json:"w,omitempty"`
	Var   string   `json:"-"`
	Val   uint64   `json:"val"`
	Lits  []string `json:"lits,omitempty"`
	Str   string   `json:"str,omitempty"` // chosen literal for string draws (informational)
	fixed bool     // value is concrete (choice)
}

type Violation struct {
	Label  string  `json:"label"`
	Draws  []*Draw `json:"draws"`
	Prefix []int   `json:"prefix"`
	Detail string  `json:"detail,omitempty"`
}

type Path struct {
	eng    *Engine
	solver *Solver

	prefix []int
	pos    int
	taken  []int
	forks  [][]int

	pc    []*Term
	facts map[string]bool

	draws []*Draw
	nvars int

	reached      map[string]int
	violations   []Violation
	obligations  int
	discharged   int
	unknowns     int
	steps        int64
	initSteps    int64
	maxSteps     int64
	env          map[string]string
	notes        map[string]int // intrinsics / overrides hit
	funcs        map[string]int // functions interpreted (name -> instr count)
	funcsSeen    map[*ssa.Function]struct{}
	nondetSeq    int
	mapOrder     bool // explore map iteration orders
	depth        int
	bounds       map[string]int
	decls        []string
	concrete     bool // concrete mode: draws are random values, no solver (translator validation)
	rng          *rand.Rand
	failed       []string // labels of assertions that failed in concrete mode
	ints         []int64  // values drawn so far (re-used to make equalities likely)
	unsatQueries []string
}

func (p *Path) note(s string) { p.notes[s]++ }

func (p *Path) assertPC(t *Term) {
	if t.cst {
		if t.val == 0 {
			panic(pathAbort{abortInfeasible, "asserted false"})
		}
		return
	}
	p.pc = append(p.pc, t)
	p.facts[t.smt] = true
	if t.op == "not" {
		p.facts[t.args[0].smt] = false
	} else {
		p.facts["(not "+t.smt+")"] = false
	}
	if t.op == "and" {
		// record conjuncts too
		for _, a := range t.args {
			p.facts[a.smt] = true
		}
	}
	p.solver.Assert(t)
}

// known reports whether the truth value of cond is syntactically determined by the path condition.
func (p *Path) known(cond *Term) (bool, bool) {
	if cond.cst {
		return cond.val != 0, true
	}
	if v, ok := p.facts[cond.smt]; ok {
		return v, true
	}
	return false, false
}

func (p *Path) check(extra *Term, model bool) (Verdict, map[string]uint64) {
	var want []string
	if model {
		for _, d := range p.draws {
			if d.Var != "" {
				want = append(want, d.Var)
			}
		}
	}
	return p.solver.Check(extra, p.eng.SolverTimeoutMs, want)
}

// decideBool resolves a branch on a symbolic condition.
func (p *Path) decideBool(cond *Term) bool {
	if v, ok := p.known(cond); ok {
		return v
	}
	if p.concrete {
		panic(engineError{msg: "symbolic condition in concrete mode: " + cond.String()})
	}
	neg := tNot(cond)
	if p.pos < len(p.prefix) {
		d := p.prefix[p.pos]
		p.pos++
		p.taken = append(p.taken, d)
		if d == 1 {
			p.assertPC(cond)
			return true
		}
		p.assertPC(neg)
		return false
	}
	vt, _ := p.check(cond, false)
	if vt == Unknown {
		p.unknowns++
	}
	if vt == Unsat {
		p.pos++
		p.taken = append(p.taken, 0)
		p.assertPC(neg)
		return false
	}
	vf, _ := p.check(neg, false)
	if vf == Unknown {
		p.unknowns++
	}
	if vf != Unsat {
		alt := append(append([]int{}, p.taken...), 0)
		p.forks = append(p.forks, alt)
	}
	p.pos++
	p.taken = append(p.taken, 1)
	p.assertPC(cond)
	return true
}

// choose makes an n-way choice; guards[i] (may be nil) is the constraint of alternative i.
func (p *Path) choose(n int, guards []*Term) int {
	if n <= 0 {
		panic(pathAbort{abortInfeasible, "empty choice"})
	}
	if p.pos < len(p.prefix) {
		d := p.prefix[p.pos]
		p.pos++
		p.taken = append(p.taken, d)
		if guards != nil && guards[d] != nil {
			p.assertPC(guards[d])
		}
		return d
	}
	if p.concrete && guards == nil {
		// schedule / map-order choice in concrete mode: any alternative (the native run is not controlled either)
		return p.rng.Intn(n)
	}
	first := -1
	for i := 0; i < n; i++ {
		if guards != nil && guards[i] != nil {
			if v, ok := p.known(guards[i]); ok {
				if !v {
					continue
				}
			} else {
				vt, _ := p.check(guards[i], false)
				if vt == Unknown {
					p.unknowns++
				}
				if vt == Unsat {
					continue
				}
			}
		}
		if first < 0 {
			first = i
		} else {
			alt := append(append([]int{}, p.taken...), i)
			p.forks = append(p.forks, alt)
		}
	}
	if first < 0 {
		panic(pathAbort{abortInfeasible, "no feasible alternative"})
	}
	p.pos++
	p.taken = append(p.taken, first)
	if guards != nil && guards[first] != nil {
		p.assertPC(guards[first])
	}
	return first
}

func (p *Path) newVar(label string, w int, kind string) (*Term, *Draw) {
	p.nvars++
	name := fmt.Sprintf("v%d_%s", p.nvars, sanitize(label))
	p.solver.Declare(name, w)
	p.decls = append(p.decls, fmt.Sprintf("(declare-const %s %s)", name, sortOf(w)))
	d := &Draw{Label: label, Kind: kind, W: w, Var: name}
	p.draws = append(p.draws, d)
	return mkVar(name, w), d
}

func sanitize(s string) string {
	var sb strings.Builder
	for _, c := range s {
		if (c >= 'a' && c <= 'z') || (c >= 'A' && c <= 'Z') || (c >= '0' && c <= '9') || c == '_' {
			sb.WriteRune(c)
		} else {
			sb.WriteByte('_')
		}
	}
	return sb.String()
}

// violation records a failed obligation with a model of the inputs.
func (p *Path) violation(label string, model map[string]uint64, detail string) {
	p.violations = append(p.violations, Violation{Label: label, Draws: p.modelDraws(model), Prefix: append([]int{}, p.taken...), Detail: detail})
}

// modelDraws instantiates the draws of this path with the values of a model.
func (p *Path) modelDraws(model map[string]uint64) []*Draw {
	var ds []*Draw
	for _, d := range p.draws {
		c := *d
		if d.Var != "" {
			c.Val = model[d.Var]
			if d.W > 0 && d.W < 64 {
				c.Val &= mask(d.W)
			}
			if d.Kind == "string" && int(c.Val) < len(d.Lits) {
				c.Str = d.Lits[c.Val]
			}
		}
		ds = append(ds, &c)
	}
	return ds
}

// assert handles verifrt.Assert.
func (p *Path) assert(cond value, label string) {
	p.obligations++
	switch c := cond.(type) {
	case bool:
		if c {
			p.discharged++
			return
		}
		if p.concrete {
			p.failed = append(p.failed, label)
			return
		}
		v, m := p.check(nil, true)
		if v == Unsat {
			// path itself infeasible (can happen after unknown verdicts)
			panic(pathAbort{abortInfeasible, "assert on infeasible path"})
		}
		p.violation(label, m, "condition is concretely false on this path")
		panic(pathAbort{abortStop, "violation " + label})
	case *Term:
		if v, ok := p.known(c); ok && v {
			p.discharged++
			return
		}
		v, m := p.check(tNot(c), true)
		switch v {
		case Unsat:
			p.discharged++
			if p.eng.RecordUnsat && len(p.unsatQueries) < 64 {
				var sb strings.Builder
				for _, d := range p.decls {
					sb.WriteString(d)
					sb.WriteString("\n")
				}
				for _, t := range p.pc {
					sb.WriteString("(assert " + t.smt + ")\n")
				}
				sb.WriteString("(assert " + tNot(c).smt + ")\n(check-sat)\n")
				p.unsatQueries = append(p.unsatQueries, sb.String())
			}
			p.assertPC(c) // harmless, may help later
		case Sat:
			p.violation(label, m, "negated assertion satisfiable: "+trunc(c.smt, 300))
			// continue exploring the side where the assertion holds, if any
			vt, _ := p.check(c, false)
			if vt == Unsat {
				panic(pathAbort{abortStop, "violation " + label})
			}
			p.assertPC(c)
		default:
			p.unknowns++
			p.assertPC(c)
		}
	default:
		panic(unsupported(fmt.Sprintf("assert on %T", cond)))
	}
}

func trunc(s string, n int) string {
	if len(s) > n {
		return s[:n] + "..."
	}
	return s
}

// randInt draws a concrete integer of width w biased towards small values and values seen before.
func (p *Path) randInt(w int) int64 {
	var v int64
	switch k := p.rng.Intn(10); {
	case k < 3:
		v = int64(p.rng.Intn(5))
	case k < 6 && len(p.ints) > 0:
		v = p.ints[p.rng.Intn(len(p.ints))] + int64(p.rng.Intn(3)) - 1
	case k < 8:
		v = p.rng.Int63n(1 << 20)
	default:
		v = p.rng.Int63() >> uint(p.rng.Intn(3))
		if p.rng.Intn(4) == 0 {
			v = -v
		}
	}
	if w == 32 {
		v = int64(int32(v))
	}
	p.ints = append(p.ints, v)
	return v
}

func (p *Path) assume(cond value) {
	switch c := cond.(type) {
	case bool:
		if !c {
			panic(pathAbort{abortAssume, "assume(false)"})
		}
	case *Term:
		if v, ok := p.known(c); ok {
			if !v {
				panic(pathAbort{abortAssume, "assume(false)"})
			}
			return
		}
		// does not fork; but the path must stay feasible
		if p.pos >= len(p.prefix) {
			v, _ := p.check(c, false)
			if v == Unsat {
				panic(pathAbort{abortAssume, "assume infeasible"})
			}
			if v == Unknown {
				p.unknowns++
			}
		}
		p.assertPC(c)
	default:
		panic(unsupported(fmt.Sprintf("assume on %T", cond)))
	}
}

func sortedKeys(m map[string]int) []string {
	ks := make([]string, 0, len(m))
	for k := range m {
		ks = append(ks, k)
	}
	sort.Strings(ks)
	return ks
}
