// Portions derived from golang.org/x/tools/go/ssa/interp (BSD-style license, The Go Authors).

// Package symgo is a symbolic executor for the go/ssa form of Go programs: concrete shapes (heap,
// slices, maps, interfaces, closures), symbolic scalars (booleans and bit-vector integers as SMT
// terms, finite-symbolic strings). A branch on a symbolic condition forks the path; paths are
// explored by decision-prefix re-execution and every feasibility question and every assertion is
// decided by an SMT solver.
package symgo

import (
	"fmt"
	"go/token"
	"go/types"
	"runtime"
	"slices"
	"sort"
	"strings"
	"sync"

	"golang.org/x/tools/go/ssa"
)

type continuation int

const (
	kNext continuation = iota
	kReturn
	kJump
)

type methodSet map[string]*ssa.Function

// poison is the result of a call the engine could not execute during permissive package initialisation.
type poison struct{ why string }

// engineError marks a crash of the engine itself (as opposed to a panic of the target program).
type engineError struct {
	msg   string
	stack string
}

// State of one path execution.
type interpreter struct {
	prog               *ssa.Program
	eng                *Engine
	path               *Path
	globals            map[*ssa.Global]*value
	initDone           map[*ssa.Package]bool
	initDepth          int
	runtimeErrorString types.Type
	sizes              types.Sizes
	sched              *scheduler
	callDepth          int
	ptrIDs             map[*value]int
	onceDone           map[string]bool
	panicTrace         []string
	jsonSizes          map[*gomap]value
	celRules           map[*value]string
	jsonpathText       map[*value]string
	locks              map[*value]*lockState
}

type deferred struct {
	fn    value
	args  []value
	instr *ssa.Defer
	tail  *deferred
}

type frame struct {
	i                *interpreter
	caller           *frame
	fn               *ssa.Function
	block, prevBlock *ssa.BasicBlock
	env              []value // dynamic values of SSA variables, indexed by info.index
	info             *fnInfo
	locals           []value
	defers           *deferred
	result           value
	panicking        bool
	panic            interface{}
	phitemps         []value // temporaries for parallel phi assignment
}

func (fr *frame) get(key ssa.Value) value {
	switch key := key.(type) {
	case nil:
		return nil
	case *ssa.Function, *ssa.Builtin:
		return key
	case *ssa.Const:
		return constValue(key)
	case *ssa.Global:
		return fr.i.global(key)
	}
	if k, ok := fr.info.index[key]; ok {
		return fr.env[k]
	}
	panic(fmt.Sprintf("get: no value for %T: %v", key, key.Name()))
}

func (fr *frame) set(key ssa.Value, v value) {
	fr.env[fr.info.index[key]] = v
}

// fnInfo numbers the SSA values of a function so that frames can keep them in a slice.
type fnInfo struct {
	index map[ssa.Value]int32
	n     int
}

func (e *Engine) infoFor(fn *ssa.Function) *fnInfo {
	if v, ok := e.fnInfos.Load(fn); ok {
		return v.(*fnInfo)
	}
	info := &fnInfo{index: map[ssa.Value]int32{}}
	add := func(v ssa.Value) {
		if _, ok := info.index[v]; !ok {
			info.index[v] = int32(info.n)
			info.n++
		}
	}
	for _, p := range fn.Params {
		add(p)
	}
	for _, fv := range fn.FreeVars {
		add(fv)
	}
	for _, l := range fn.Locals {
		add(l)
	}
	for _, b := range fn.Blocks {
		for _, in := range b.Instrs {
			if v, ok := in.(ssa.Value); ok {
				add(v)
			}
		}
	}
	if fn.Recover != nil {
		for _, in := range fn.Recover.Instrs {
			if v, ok := in.(ssa.Value); ok {
				add(v)
			}
		}
	}
	e.fnInfos.Store(fn, info)
	return info
}

func (i *interpreter) global(g *ssa.Global) *value {
	if r, ok := i.globals[g]; ok {
		return r
	}
	i.initPackage(g.Pkg)
	if r, ok := i.globals[g]; ok {
		return r
	}
	panic(unsupported("global without storage: " + g.String()))
}

func (i *interpreter) initPackage(pkg *ssa.Package) {
	if i.initDone[pkg] {
		return
	}
	i.initDone[pkg] = true
	for _, m := range pkg.Members {
		if g, ok := m.(*ssa.Global); ok {
			cell := zero(mustDeref(g.Type()))
			i.globals[g] = &cell
		}
	}
	if skipInit[pkg.Pkg.Path()] {
		return
	}
	if isCELPackage(pkg.Pkg.Path()) {
		// cel-go is never executed (see cel.go); its initialisers are skipped. cel.BoolType must be a distinct non-nil
		// pointer because the code under test compares an expression's output type with it.
		if pkg.Pkg.Path() == "github.com/google/cel-go/cel" {
			if g, ok := pkg.Members["BoolType"].(*ssa.Global); ok {
				inner := zero(mustDeref(mustDeref(g.Type())))
				*i.globals[g] = &inner
			}
		}
		return
	}
	if init := pkg.Func("init"); init != nil && init.Blocks != nil {
		// Globals that the initialiser assigns start out poisoned: should the initialiser be cut short, using one of
		// the not-yet-assigned globals aborts the path (inconclusive) instead of silently reading a zero value.
		for _, b := range init.Blocks {
			for _, in := range b.Instrs {
				if st, ok := in.(*ssa.Store); ok {
					if g, ok := st.Addr.(*ssa.Global); ok && g.Pkg == pkg && g.Name() != "init$guard" {
						*i.globals[g] = poison{why: "package initialiser of " + pkg.Pkg.Path() + " was cut short"}
					}
				}
			}
		}
		i.initDepth++
		saveSteps := i.path.steps
		func() {
			defer func() {
				i.initDepth--
				if r := recover(); r != nil {
					if pa, ok := r.(pathAbort); ok && pa.kind != abortUnsupported {
						panic(r)
					}
					// the rest of this package's initialisation is lost; globals it had not assigned yet stay poisoned.
					i.path.note("init-aborted:" + pkg.Pkg.Path() + ": " + trunc(fmt.Sprint(r), 200))
				}
			}()
			callSSA(i, nil, token.NoPos, init, nil, nil)
		}()
		// globals whose (reflection-built) value is never inspected because every operation on them is an intrinsic
		for _, m := range pkg.Members {
			if g, ok := m.(*ssa.Global); ok && zeroedGlobals[g.Pkg.Pkg.Path()+"."+g.Name()] {
				if _, isPoison := (*i.globals[g]).(poison); isPoison {
					*i.globals[g] = zero(mustDeref(g.Type()))
				}
			}
		}
		i.path.initSteps += i.path.steps - saveSteps
		i.path.steps = saveSteps // initialisation is not charged to the path budget
	}
}

// globals built with reflection at init time whose only uses are intrinsics (equality.Semantic.DeepEqual ...)
var zeroedGlobals = map[string]bool{
	"k8s.io/apimachinery/pkg/api/equality.Semantic": true,
}

// packages whose initialisers are never needed and are expensive or impossible to interpret
var skipInit = map[string]bool{
	"unicode": true, "runtime": true, "reflect": true, "syscall": true, "os": true, "net": true,
	"crypto/tls": true, "net/http": true, "time": true, "internal/godebug": true,
}

func mustDeref(t types.Type) types.Type {
	if p, ok := t.Underlying().(*types.Pointer); ok {
		return p.Elem()
	}
	panic("mustDeref: not a pointer: " + t.String())
}

func (fr *frame) runDefer(d *deferred) {
	var ok bool
	defer func() {
		if !ok {
			r := recover()
			if isAbort(r) {
				panic(r)
			}
			fr.panicking = true
			fr.panic = r
		}
	}()
	call(fr.i, fr, d.instr.Pos(), d.fn, d.args)
	ok = true
}

func isAbort(r interface{}) bool {
	switch r.(type) {
	case pathAbort, engineError, threadExit:
		return true
	}
	return false
}

func (fr *frame) runDefers() {
	for d := fr.defers; d != nil; d = d.tail {
		fr.runDefer(d)
	}
	fr.defers = nil
	if fr.panicking {
		panic(fr.panic) // new panic, or still panicking
	}
}

var (
	envProf   map[*ssa.Function]int64
	envProfMu sync.Mutex
)

// EnableEnvProfile / DumpEnvProfile: development aid, which functions allocate the most frame slots.
func EnableEnvProfile() { envProf = map[*ssa.Function]int64{} }
func DumpEnvProfile() {
	type kv struct {
		f *ssa.Function
		n int64
	}
	var l []kv
	for f, n := range envProf {
		l = append(l, kv{f, n})
	}
	sort.Slice(l, func(a, b int) bool { return l[a].n > l[b].n })
	for k := 0; k < len(l) && k < 15; k++ {
		fmt.Println(l[k].n, l[k].f.String())
	}
}

type methodKey struct {
	t types.Type
	m *types.Func
}

func lookupMethod(i *interpreter, typ types.Type, meth *types.Func) *ssa.Function {
	key := methodKey{typ, meth}
	if v, ok := i.eng.methodCache.Load(key); ok {
		return v.(*ssa.Function)
	}
	f := i.prog.LookupMethod(typ, meth.Pkg(), meth.Name())
	i.eng.methodCache.Store(key, f)
	return f
}

// permuteHere: map iteration orders are explored only for range statements in the code under test (not in
// libraries, whose order-independence is not the subject, and not in harness files).
func (i *interpreter) permuteHere(fr *frame, instr *ssa.Range) bool {
	if !i.path.mapOrder || !i.eng.inRepo(fr.fn) {
		return false
	}
	pos := instr.Pos()
	if !pos.IsValid() {
		pos = fr.fn.Pos()
	}
	file := i.prog.Fset.Position(pos).Filename
	return !strings.Contains(file, "zz_verif") && !strings.Contains(file, "/internal/verif")
}

func nilDeref() targetPanic {
	return targetPanic{"runtime error: invalid memory address or nil pointer dereference"}
}

func (i *interpreter) asIndex(v value) int64 {
	if t, ok := v.(*Term); ok {
		if t.cst {
			return signed(t.val, t.w)
		}
		panic(unsupported("symbolic index/length: " + trunc(t.smt, 80)))
	}
	return asInt64(v)
}

func visitInstr(fr *frame, instr ssa.Instruction) continuation {
	i := fr.i
	switch instr := instr.(type) {
	case *ssa.DebugRef:
		// no-op

	case *ssa.UnOp:
		fr.set(instr, i.unop(instr, fr.get(instr.X)))

	case *ssa.BinOp:
		fr.set(instr, i.binop(instr.Op, instr.X.Type(), fr.get(instr.X), fr.get(instr.Y)))

	case *ssa.Call:
		fn, args := prepareCall(fr, &instr.Call)
		if i.initDepth > 0 && fr.fn.Synthetic != "" && fr.fn.Name() == "init" {
			fr.set(instr, permissiveCall(fr, instr, fn, args))
		} else {
			fr.set(instr, call(i, fr, instr.Pos(), fn, args))
		}

	case *ssa.ChangeInterface:
		fr.set(instr, fr.get(instr.X))

	case *ssa.ChangeType:
		fr.set(instr, fr.get(instr.X)) // (can.t fail)

	case *ssa.Convert:
		fr.set(instr, i.conv(instr.Type(), instr.X.Type(), fr.get(instr.X)))

	case *ssa.MultiConvert:
		fr.set(instr, i.conv(instr.Type(), instr.X.Type(), fr.get(instr.X)))

	case *ssa.SliceToArrayPointer:
		fr.set(instr, sliceToArrayPointer(instr.Type(), instr.X.Type(), fr.get(instr.X)))

	case *ssa.MakeInterface:
		fr.set(instr, iface{t: instr.X.Type(), v: fr.get(instr.X)})

	case *ssa.Extract:
		tv := fr.get(instr.Tuple)
		if p, ok := tv.(poison); ok {
			fr.set(instr, p)
		} else {
			fr.set(instr, tv.(tuple)[instr.Index])
		}

	case *ssa.Slice:
		x := fr.get(instr.X)
		var lo, hi, mx value
		if instr.Low != nil {
			lo = i.asIndex(fr.get(instr.Low))
		}
		if instr.High != nil {
			hi = i.asIndex(fr.get(instr.High))
		}
		if instr.Max != nil {
			mx = i.asIndex(fr.get(instr.Max))
		}
		if s, ok := x.(symStr); ok {
			x = i.concretizeStr(s)
		}
		fr.set(instr, slice(x, lo, hi, mx))

	case *ssa.Return:
		switch len(instr.Results) {
		case 0:
		case 1:
			fr.result = fr.get(instr.Results[0])
		default:
			var res []value
			for _, r := range instr.Results {
				res = append(res, fr.get(r))
			}
			fr.result = tuple(res)
		}
		fr.block = nil
		return kReturn

	case *ssa.RunDefers:
		fr.runDefers()

	case *ssa.Panic:
		panic(targetPanic{fr.get(instr.X)})

	case *ssa.Send:
		i.chanSend(fr.get(instr.Chan), fr.get(instr.X))

	case *ssa.Store:
		addr := fr.get(instr.Addr).(*value)
		if addr == nil {
			panic(nilDeref())
		}
		store(mustDeref(instr.Addr.Type()), addr, fr.get(instr.Val))

	case *ssa.If:
		succ := 1
		switch c := fr.get(instr.Cond).(type) {
		case bool:
			if c {
				succ = 0
			}
		case *Term:
			if i.initDepth > 0 {
				panic(unsupported("symbolic branch during package initialisation"))
			}
			if i.path.decideBool(c) {
				succ = 0
			}
		default:
			panic(unsupported(fmt.Sprintf("branch on %T", c)))
		}
		fr.prevBlock, fr.block = fr.block, fr.block.Succs[succ]
		return kJump

	case *ssa.Jump:
		fr.prevBlock, fr.block = fr.block, fr.block.Succs[0]
		return kJump

	case *ssa.Defer:
		fn, args := prepareCall(fr, &instr.Call)
		defers := &fr.defers
		if into := fr.get(instr.DeferStack); into != nil {
			defers = into.(**deferred)
		}
		*defers = &deferred{
			fn:    fn,
			args:  args,
			instr: instr,
			tail:  *defers,
		}

	case *ssa.Go:
		fn, args := prepareCall(fr, &instr.Call)
		i.spawn(fr, instr, fn, args)

	case *ssa.MakeChan:
		fr.set(instr, i.makeChan(int(i.asIndex(fr.get(instr.Size)))))

	case *ssa.Alloc:
		var addr *value
		if instr.Heap {
			// new
			addr = new(value)
			fr.set(instr, addr)
		} else {
			// local
			addr = fr.get(instr).(*value)
		}
		*addr = zero(mustDeref(instr.Type()))

	case *ssa.MakeSlice:
		n := i.asIndex(fr.get(instr.Cap))
		if n < 0 || n > 1<<24 {
			panic(targetPanic{"runtime error: makeslice: cap out of range"})
		}
		slice := make([]value, n)
		tElt := instr.Type().Underlying().(*types.Slice).Elem()
		for i := range slice {
			slice[i] = zero(tElt)
		}
		fr.set(instr, slice[:i.asIndex(fr.get(instr.Len))])

	case *ssa.MakeMap:
		fr.set(instr, newMap())

	case *ssa.Range:
		fr.set(instr, rangeIter(i, fr.get(instr.X), instr.X.Type(), i.permuteHere(fr, instr)))

	case *ssa.Next:
		fr.set(instr, fr.get(instr.Iter).(iter).next())

	case *ssa.FieldAddr:
		p := fr.get(instr.X).(*value)
		if p == nil {
			panic(nilDeref())
		}
		s, ok := (*p).(structure)
		if !ok {
			panic(unsupported(fmt.Sprintf("field access into %T (%s)", *p, instr.X.Type())))
		}
		fr.set(instr, &s[instr.Field])

	case *ssa.Field:
		s, ok := fr.get(instr.X).(structure)
		if !ok {
			panic(unsupported(fmt.Sprintf("field of %T (%s)", fr.get(instr.X), instr.X.Type())))
		}
		fr.set(instr, s[instr.Field])

	case *ssa.IndexAddr:
		x := fr.get(instr.X)
		idx := i.asIndex(fr.get(instr.Index))
		switch x := x.(type) {
		case []value:
			if idx < 0 || idx >= int64(len(x)) {
				panic(targetPanic{fmt.Sprintf("runtime error: index out of range [%d] with length %d", idx, len(x))})
			}
			fr.set(instr, &x[idx])
		case *value: // *array
			if x == nil {
				panic(nilDeref())
			}
			a := (*x).(array)
			if idx < 0 || idx >= int64(len(a)) {
				panic(targetPanic{fmt.Sprintf("runtime error: index out of range [%d] with length %d", idx, len(a))})
			}
			fr.set(instr, &a[idx])
		default:
			panic(unsupported(fmt.Sprintf("unexpected x type in IndexAddr: %T", x)))
		}

	case *ssa.Index:
		x := fr.get(instr.X)
		idx := i.asIndex(fr.get(instr.Index))
		if s, ok := x.(symStr); ok {
			x = i.concretizeStr(s)
		}
		switch x := x.(type) {
		case array:
			if idx < 0 || idx >= int64(len(x)) {
				panic(targetPanic{fmt.Sprintf("runtime error: index out of range [%d] with length %d", idx, len(x))})
			}
			fr.set(instr, x[idx])
		case string:
			if idx < 0 || idx >= int64(len(x)) {
				panic(targetPanic{fmt.Sprintf("runtime error: index out of range [%d] with length %d", idx, len(x))})
			}
			fr.set(instr, x[idx])
		default:
			panic(unsupported(fmt.Sprintf("unexpected x type in Index: %T", x)))
		}

	case *ssa.Lookup:
		x := fr.get(instr.X)
		idx := fr.get(instr.Index)
		switch xs := x.(type) {
		case string, symStr:
			s := i.concretizeStr(xs)
			k := i.asIndex(idx)
			if k < 0 || k >= int64(len(s)) {
				panic(targetPanic{fmt.Sprintf("runtime error: index out of range [%d] with length %d", k, len(s))})
			}
			fr.set(instr, s[k])
		default:
			fr.set(instr, lookup(instr, x, i.concreteKey(idx)))
		}

	case *ssa.MapUpdate:
		m := fr.get(instr.Map).(*gomap)
		key := i.concreteKey(fr.get(instr.Key))
		m.set(key, fr.get(instr.Value))

	case *ssa.TypeAssert:
		x := fr.get(instr.X)
		itf, ok := x.(iface)
		if !ok {
			panic(unsupported(fmt.Sprintf("type assertion on %T", x)))
		}
		fr.set(instr, typeAssert(i, instr, itf))

	case *ssa.MakeClosure:
		var bindings []value
		for _, binding := range instr.Bindings {
			bindings = append(bindings, fr.get(binding))
		}
		fr.set(instr, &closure{instr.Fn.(*ssa.Function), bindings})

	case *ssa.Phi:
		panic("unreachable: phis are processed at block entry")

	case *ssa.Select:
		fr.set(instr, i.doSelect(fr, instr))

	default:
		panic(unsupported(fmt.Sprintf("unexpected instruction: %T", instr)))
	}
	return kNext
}

// visitInstrPermissive executes one instruction of a package initialiser; an instruction the engine cannot execute
// yields a poison value (for value instructions) instead of cutting the initialiser short.
func visitInstrPermissive(fr *frame, instr ssa.Instruction) (k continuation) {
	v, isValue := instr.(ssa.Value)
	if !isValue {
		return visitInstr(fr, instr)
	}
	defer func() {
		if r := recover(); r != nil {
			switch rv := r.(type) {
			case pathAbort:
				if rv.kind != abortUnsupported {
					panic(r)
				}
				fr.set(v, poison{why: rv.msg})
			case runtime.Error:
				fr.set(v, poison{why: rv.Error()})
			case targetPanic:
				fr.set(v, poison{why: "panic during initialisation"})
			default:
				panic(r)
			}
			k = kNext
		}
	}()
	return visitInstr(fr, instr)
}

// permissiveCall runs a call made directly from a package initialiser; failures yield poison.
func permissiveCall(fr *frame, instr *ssa.Call, fn value, args []value) (res value) {
	if f, ok := fn.(*ssa.Function); ok && f != nil && f.Synthetic != "" && f.Name() == "init" && f.Pkg != fr.fn.Pkg {
		// initialisation of an imported package: done lazily when one of its globals is touched
		return nil
	}
	defer func() {
		if r := recover(); r != nil {
			if pa, ok := r.(pathAbort); ok && pa.kind != abortUnsupported {
				panic(r)
			}
			res = poison{why: fmt.Sprint(r)}
		}
	}()
	return call(fr.i, fr, instr.Pos(), fn, args)
}

func prepareCall(fr *frame, call *ssa.CallCommon) (fn value, args []value) {
	v := fr.get(call.Value)
	if call.Method == nil {
		// Function call.
		fn = v
	} else {
		// Interface method invocation.
		recv, ok := v.(iface)
		if !ok {
			panic(unsupported(fmt.Sprintf("method call %s on %T", call.Method.Name(), v)))
		}
		if recv.t == nil {
			panic(nilDeref())
		}
		if f := lookupMethod(fr.i, recv.t, call.Method); f == nil {
			panic(unsupported(fmt.Sprintf("method set for dynamic type %v does not contain %s", recv.t, call.Method)))
		} else {
			fn = f
		}
		args = append(args, recv.v)
	}
	for _, arg := range call.Args {
		args = append(args, fr.get(arg))
	}
	return
}

func call(i *interpreter, caller *frame, callpos token.Pos, fn value, args []value) value {
	switch fn := fn.(type) {
	case *ssa.Function:
		if fn == nil {
			panic(nilDeref()) // nil of func type
		}
		return callSSA(i, caller, callpos, fn, args, nil)
	case *closure:
		return callSSA(i, caller, callpos, fn.Fn, args, fn.Env)
	case *ssa.Builtin:
		return callBuiltin(caller, callpos, fn, args)
	case poison:
		panic(unsupported("call of poisoned function value: " + fn.why))
	}
	panic(unsupported(fmt.Sprintf("cannot call %T", fn)))
}

func callSSA(i *interpreter, caller *frame, callpos token.Pos, fn *ssa.Function, args []value, env []value) value {
	fr := &frame{
		i:      i,
		caller: caller, // for panic/recover
		fn:     fn,
	}
	if i.callDepth > 400 {
		panic(pathAbort{abortBudget, "call depth exceeded (unbounded recursion?) in " + fn.String()})
	}
	if ext := i.eng.findIntrinsic(fn); ext != nil {
		i.path.note("intrinsic:" + intrinsicName(fn))
		return ext(fr, args)
	}
	if fn.Blocks == nil {
		panic(unsupported("no code for function: " + fn.String()))
	}
	if fn.TypeParams().Len() > 0 && len(fn.TypeArgs()) == 0 {
		panic(unsupported("uninstantiated generic function " + fn.String()))
	}
	if i.eng.tracing {
		fmt.Printf("%s> %s\n", strings.Repeat(" ", i.callDepth), fn.String())
	}
	if i.initDepth == 0 {
		if _, ok := i.path.funcsSeen[fn]; !ok {
			i.path.funcsSeen[fn] = struct{}{}
		}
	}
	i.callDepth++
	defer func() { i.callDepth-- }()

	fr.info = i.eng.infoFor(fn)
	if envProf != nil {
		envProfMu.Lock()
		envProf[fn] += int64(fr.info.n)
		envProfMu.Unlock()
	}
	fr.env = make([]value, fr.info.n)
	fr.block = fn.Blocks[0]
	fr.locals = make([]value, len(fn.Locals))
	for k, l := range fn.Locals {
		fr.locals[k] = zero(mustDeref(l.Type()))
		fr.set(l, &fr.locals[k])
	}
	for k, p := range fn.Params {
		fr.set(p, args[k])
	}
	for k, fv := range fn.FreeVars {
		fr.set(fv, env[k])
	}
	for fr.block != nil {
		runFrame(fr)
	}
	return fr.result
}

func countInstrs(fn *ssa.Function) int {
	n := 0
	for _, b := range fn.Blocks {
		n += len(b.Instrs)
	}
	return n
}

func runFrame(fr *frame) {
	defer func() {
		if fr.block == nil {
			return // normal return
		}
		r := recover()
		switch rv := r.(type) {
		case pathAbort, engineError, threadExit:
			panic(r)
		case targetPanic:
			if len(fr.i.panicTrace) < 12 {
				pos := ""
				if fr.block != nil {
					for _, in := range fr.block.Instrs {
						if in.Pos().IsValid() {
							pos = fr.i.prog.Fset.Position(in.Pos()).String()
							break
						}
					}
				}
				fr.i.panicTrace = append(fr.i.panicTrace, fr.fn.String()+" ("+pos+")")
			}
		case runtime.Error:
			// a crash inside the engine while interpreting: not a property of the target program
			buf := make([]byte, 4096)
			n := runtime.Stack(buf, false)
			panic(engineError{msg: fmt.Sprintf("%v (while interpreting %s)", rv, fr.fn), stack: string(buf[:n])})
		default:
			panic(engineError{msg: fmt.Sprintf("%v (while interpreting %s)", r, fr.fn)})
		}
		fr.panicking = true
		fr.panic = r
		fr.runDefers()
		fr.block = fr.fn.Recover
		if fr.block == nil {
			// recovered, function without named results: return zero values
			fr.result = zero(fr.fn.Signature.Results())
			if fr.fn.Signature.Results().Len() == 0 {
				fr.result = nil
			}
		}
	}()

	for {
		nonPhis := executePhis(fr)
		p := fr.i.path
		p.steps += int64(len(nonPhis))
		if p.steps > p.maxSteps {
			panic(pathAbort{abortBudget, fmt.Sprintf("step budget %d exceeded in %s (unwinding assertion)", p.maxSteps, fr.fn)})
		}
		permissive := fr.i.initDepth > 0 && fr.fn.Synthetic != "" && fr.fn.Name() == "init"
		for _, instr := range nonPhis {
			var k continuation
			if permissive {
				k = visitInstrPermissive(fr, instr)
			} else {
				k = visitInstr(fr, instr)
			}
			if k == kReturn {
				return
			}
		}
	}
}

func executePhis(fr *frame) []ssa.Instruction {
	firstNonPhi := -1
	for i, instr := range fr.block.Instrs {
		if _, ok := instr.(*ssa.Phi); !ok {
			firstNonPhi = i
			break
		}
	}
	nonPhis := fr.block.Instrs[firstNonPhi:]
	if firstNonPhi > 0 {
		phis := fr.block.Instrs[:firstNonPhi]
		predIndex := slices.Index(fr.block.Preds, fr.prevBlock)
		fr.phitemps = fr.phitemps[:0]
		for _, phi := range phis {
			phi := phi.(*ssa.Phi)
			fr.phitemps = append(fr.phitemps, fr.get(phi.Edges[predIndex]))
		}
		for i, phi := range phis {
			fr.set(phi.(*ssa.Phi), fr.phitemps[i])
		}
	}
	return nonPhis
}

func doRecover(caller *frame) value {
	if caller != nil && !caller.panicking &&
		caller.caller != nil && caller.caller.panicking {
		caller.caller.panicking = false
		p := caller.caller.panic
		caller.caller.panic = nil
		switch p := p.(type) {
		case targetPanic:
			switch v := p.v.(type) {
			case iface:
				return v
			case string:
				return iface{caller.i.runtimeErrorString, strings.TrimPrefix(v, "runtime error: ")}
			}
			return iface{types.Typ[types.String], fmt.Sprint(p.v)}
		default:
			panic(engineError{msg: fmt.Sprintf("unexpected panic type %T in target call to recover()", p)})
		}
	}
	return iface{}
}
