package symgo

// cel-go cannot be executed by the engine (parser tables, protobuf, reflection). It is replaced by a table-driven
// stand-in at the cel-go API boundary, so that the code under test that *uses* cel-go (pkg/probing.NewCELProbe and
// CELProbe.probe) is executed for real: Env.Compile / Ast.OutputType / Env.Program / Program.Eval answer for a
// small fixed set of rules exactly as cel-go does. Every harness run is also executed natively against the real
// cel-go (path witnesses and random scripts of the translator validation), which checks the table.

import (
	"go/types"
	"strings"
)

func isCELPackage(path string) bool {
	return strings.HasPrefix(path, "github.com/google/cel-go/") || strings.HasPrefix(path, "k8s.io/apiserver/pkg/cel")
}

type celRule struct {
	compiles bool
	boolean  bool
	eval     func(i *interpreter, self *gomap) bool
}

var celRules = map[string]celRule{
	"true":             {true, true, func(*interpreter, *gomap) bool { return true }},
	"false":            {true, true, func(*interpreter, *gomap) bool { return false }},
	"has(self.status)": {true, true, func(i *interpreter, self *gomap) bool { _, ok := self.get("status"); return ok }},
	"1":                {true, false, nil},
	"'text'":           {true, false, nil},
	"self.metadata":    {true, false, nil}, // dyn
	"self.(":           {false, false, nil},
}

func registerCEL(e *Engine) {
	rules := func(i *interpreter) map[*value]string {
		if i.celRules == nil {
			i.celRules = map[*value]string{}
		}
		return i.celRules
	}
	fresh := func(fr *frame, resultIdx int) *value {
		pt := fr.fn.Signature.Results().At(resultIdx).Type()
		cell := zero(mustDeref(pt))
		return &cell
	}
	// option constructors and libraries: their results are only ever passed to NewEnv
	nilResult := noop
	e.regPrefix("github.com/google/cel-go/ext.", nilResult)
	e.regPrefix("k8s.io/apiserver/pkg/cel/library.", nilResult)
	for _, f := range []string{"Variable", "HomogeneousAggregateLiterals", "EagerlyValidateDeclarations", "DefaultUTCTimeZone", "Lib", "CrossTypeNumericComparisons", "OptionalTypes"} {
		e.reg("github.com/google/cel-go/cel."+f, nilResult)
	}
	e.reg("github.com/google/cel-go/cel.NewEnv", func(fr *frame, args []value) value {
		return tuple{fresh(fr, 0), iface{}}
	})
	e.reg("(*github.com/google/cel-go/cel.Env).Compile", func(fr *frame, args []value) value {
		i := fr.i
		rule := i.concretizeStr(args[1])
		r, ok := celRules[rule]
		if !ok {
			panic(unsupported("CEL rule outside the stand-in's table: " + rule))
		}
		if !r.compiles {
			iss := fresh(fr, 1)
			rules(i)[iss] = rule
			return tuple{(*value)(nil), iss}
		}
		ast := fresh(fr, 0)
		rules(i)[ast] = rule
		return tuple{ast, (*value)(nil)}
	})
	e.reg("(*github.com/google/cel-go/cel.Issues).Err", func(fr *frame, args []value) value {
		if p, _ := args[0].(*value); p == nil {
			return iface{}
		}
		return fr.i.mkError("ERROR: <input>:1:6: Syntax error")
	})
	e.reg("(*github.com/google/cel-go/cel.Ast).OutputType", func(fr *frame, args []value) value {
		i := fr.i
		rule := rules(i)[args[0].(*value)]
		if celRules[rule].boolean {
			pkg := i.prog.ImportedPackage("github.com/google/cel-go/cel")
			return *i.global(pkg.Var("BoolType"))
		}
		return fresh(fr, 0) // some other type
	})
	e.reg("(*github.com/google/cel-go/cel.Env).Program", func(fr *frame, args []value) value {
		i := fr.i
		rule := rules(i)[args[1].(*value)]
		pt := types.NewPointer(i.namedType("github.com/google/cel-go/cel", "prog"))
		cell := zero(pt.Elem())
		p := &cell
		rules(i)[p] = rule
		return tuple{iface{t: pt, v: p}, iface{}}
	})
	e.reg("(*github.com/google/cel-go/cel.prog).Eval", func(fr *frame, args []value) value {
		i := fr.i
		rule := rules(i)[args[0].(*value)]
		r := celRules[rule]
		in, _ := args[1].(iface)
		m, _ := in.v.(*gomap)
		if m == nil || r.eval == nil {
			panic(unsupported("CEL evaluation outside the stand-in's table"))
		}
		selfV, _ := m.get("self")
		self, _ := selfV.(iface)
		sm, _ := self.v.(*gomap)
		if sm == nil {
			panic(unsupported("CEL evaluation: self is not a map"))
		}
		res := r.eval(i, sm)
		return tuple{iface{t: i.namedType("github.com/google/cel-go/common/types", "Bool"), v: res}, (*value)(nil), iface{}}
	})
}
