package symgo

import (
	"fmt"
	"go/types"
	"sort"
	"strconv"
	"strings"

	"golang.org/x/tools/go/ssa"
)

const verifrtPath = "package-operator.run/internal/verifrt"

func intrinsicName(fn *ssa.Function) string {
	if o := fn.Origin(); o != nil {
		return o.String()
	}
	return fn.String()
}

type noIntrinsic struct{}

func (e *Engine) findIntrinsic(fn *ssa.Function) intrinsic {
	if v, ok := e.intrCache.Load(fn); ok {
		if f, ok := v.(intrinsic); ok {
			return f
		}
		return nil
	}
	var found intrinsic
	name := fn.String()
	if f, ok := e.intrinsics[name]; ok {
		found = f
	} else if o := fn.Origin(); o != nil {
		if f, ok := e.intrinsics[o.String()]; ok {
			found = f
		}
	}
	if found == nil {
		for _, p := range e.prefixIntr {
			if strings.HasPrefix(name, p.prefix) {
				found = p.fn
				break
			}
		}
	}
	if found == nil {
		found = e.nativeFor(fn)
	}
	if found == nil {
		e.intrCache.Store(fn, noIntrinsic{})
		return nil
	}
	e.intrCache.Store(fn, found)
	return found
}

func (e *Engine) reg(name string, f intrinsic) { e.intrinsics[name] = f }
func (e *Engine) regPrefix(prefix string, f intrinsic) {
	e.prefixIntr = append(e.prefixIntr, prefixIntrinsic{prefix, f})
}

// zeroResult returns the zero value(s) of fn's results.
func zeroResult(fr *frame) value {
	res := fr.fn.Signature.Results()
	if res.Len() == 0 {
		return nil
	}
	return zero(res)
}

func noop(fr *frame, args []value) value { return zeroResult(fr) }

func (e *Engine) registerIntrinsics() {
	e.intrinsics = map[string]intrinsic{}
	v := verifrtPath + "."

	// ---- harness API
	e.reg(v+"Bool", func(fr *frame, args []value) value {
		p := fr.i.path
		if p.concrete {
			b := p.rng.Intn(2) == 1
			d := &Draw{Label: fr.i.concretizeStr(args[0]), Kind: "bool", fixed: true}
			if b {
				d.Val = 1
			}
			p.draws = append(p.draws, d)
			return b
		}
		t, _ := p.newVar(fr.i.concretizeStr(args[0]), 0, "bool")
		return t
	})
	e.reg(v+"Int64", func(fr *frame, args []value) value {
		p := fr.i.path
		if p.concrete {
			n := p.randInt(64)
			p.draws = append(p.draws, &Draw{Label: fr.i.concretizeStr(args[0]), Kind: "int", W: 64, Val: uint64(n), fixed: true})
			return n
		}
		t, _ := p.newVar(fr.i.concretizeStr(args[0]), 64, "int")
		return t
	})
	e.reg(v+"Int32", func(fr *frame, args []value) value {
		p := fr.i.path
		if p.concrete {
			n := p.randInt(32)
			p.draws = append(p.draws, &Draw{Label: fr.i.concretizeStr(args[0]), Kind: "int", W: 32, Val: uint64(uint32(int32(n))), fixed: true})
			return int32(n)
		}
		t, _ := p.newVar(fr.i.concretizeStr(args[0]), 32, "int")
		return t
	})
	e.reg(v+"IntRange", func(fr *frame, args []value) value {
		lo, hi := int(fr.i.asIndex(args[1])), int(fr.i.asIndex(args[2]))
		if hi < lo {
			panic(pathAbort{abortAssume, "empty IntRange"})
		}
		var k int
		if fr.i.path.concrete {
			k = fr.i.path.rng.Intn(hi - lo + 1)
		} else {
			k = fr.i.path.choose(hi-lo+1, nil)
		}
		fr.i.path.draws = append(fr.i.path.draws, &Draw{Label: fr.i.concretizeStr(args[0]), Kind: "choice", Val: uint64(lo + k), fixed: true})
		return lo + k
	})
	e.reg(v+"StringFrom", func(fr *frame, args []value) value {
		lits := args[1].([]value)
		if len(lits) == 0 {
			panic(unsupported("StringFrom without literals"))
		}
		label := fr.i.concretizeStr(args[0])
		if len(lits) == 1 {
			return lits[0]
		}
		if fr.i.path.concrete {
			k := fr.i.path.rng.Intn(len(lits))
			d := &Draw{Label: label, Kind: "string", W: 8, Val: uint64(k), fixed: true}
			for _, l := range lits {
				d.Lits = append(d.Lits, l.(string))
			}
			fr.i.path.draws = append(fr.i.path.draws, d)
			return lits[k]
		}
		t, d := fr.i.path.newVar(label, 8, "string")
		fr.i.path.assertPC(bvCmp("bvult", t, mkBV(uint64(len(lits)), 8)))
		var cs []strCase
		for k, l := range lits {
			s := l.(string)
			d.Lits = append(d.Lits, s)
			cs = append(cs, strCase{tEq(t, mkBV(uint64(k), 8)), s})
		}
		return symStr{cases: cs}
	})
	e.reg(v+"Assume", func(fr *frame, args []value) value {
		fr.i.path.assume(args[0])
		return nil
	})
	e.reg(v+"Assert", func(fr *frame, args []value) value {
		fr.i.path.assert(args[0], fr.i.concretizeStr(args[1]))
		return nil
	})
	e.reg(v+"Reach", func(fr *frame, args []value) value {
		fr.i.path.reached[fr.i.concretizeStr(args[0])]++
		return nil
	})
	e.reg(v+"Setenv", func(fr *frame, args []value) value {
		fr.i.path.env[fr.i.concretizeStr(args[0])] = fr.i.concretizeStr(args[1])
		return nil
	})
	e.reg(v+"Bound", func(fr *frame, args []value) value {
		if n, ok := fr.i.path.bounds[fr.i.concretizeStr(args[0])]; ok {
			return n
		}
		return args[1]
	})
	e.reg(v+"And", func(fr *frame, args []value) value { return symAnd(args[0], args[1]) })
	e.reg(v+"Or", func(fr *frame, args []value) value { return symOr(args[0], args[1]) })
	e.reg(v+"Not", func(fr *frame, args []value) value { return symNot(args[0]) })
	e.reg(v+"Implies", func(fr *frame, args []value) value { return symOr(symNot(args[0]), args[1]) })
	e.reg(v+"SetJSONSize", func(fr *frame, args []value) value {
		m := args[0].(*gomap)
		m.set("pad", iface{t: tString, v: opaqueStr{hint: "padding"}})
		if fr.i.jsonSizes == nil {
			fr.i.jsonSizes = map[*gomap]value{}
		}
		fr.i.jsonSizes[m] = args[1]
		return nil
	})
	e.reg(v+"Repeat", func(fr *frame, args []value) value { return 1 })
	e.reg(v+"Symbolic", func(fr *frame, args []value) value { return true })
	e.reg(v+"Panics", func(fr *frame, args []value) (res value) {
		defer func() {
			if r := recover(); r != nil {
				if _, ok := r.(targetPanic); ok {
					res = true
					return
				}
				panic(r)
			}
		}()
		call(fr.i, fr, 0, args[0], nil)
		return false
	})
	e.reg(v+"PanicMessage", func(fr *frame, args []value) (res value) {
		defer func() {
			if r := recover(); r != nil {
				if tp, ok := r.(targetPanic); ok {
					res = fr.i.panicString(tp)
					return
				}
				panic(r)
			}
		}()
		call(fr.i, fr, 0, args[0], nil)
		return ""
	})
	e.reg(v+"Lock", func(fr *frame, args []value) value { return nil })
	e.reg(v+"Unlock", func(fr *frame, args []value) value { return nil })
	e.reg(v+"Pause", func(fr *frame, args []value) value { fr.i.yield(false); return nil })
	e.reg(v+"Yield", func(fr *frame, args []value) value { fr.i.yield(false); return nil })
	e.reg(v+"Note", func(fr *frame, args []value) value { return nil })
	e.reg(v+"Opaque", func(fr *frame, args []value) value { return opaqueStr{hint: fr.i.concretizeStr(args[0])} })
	e.reg(v+"SameObject", func(fr *frame, args []value) value {
		a, b := args[0].(iface), args[1].(iface)
		return sameRef(a.v, b.v)
	})

	e.reg("package-operator.run/internal/verifk8s.TypeName", func(fr *frame, args []value) value {
		it := args[0].(iface)
		if it.t == nil {
			return "<nil>"
		}
		s := strings.TrimLeft(it.t.String(), "*")
		if k := strings.LastIndex(s, "."); k >= 0 {
			s = s[k+1:]
		}
		return s
	})

	// ---- fmt / errors
	e.reg("fmt.Errorf", intrErrorf)
	e.reg("fmt.Sprintf", func(fr *frame, args []value) value {
		return fr.i.format(args[0], args[1].([]value), nil)
	})
	e.reg("fmt.Sprint", func(fr *frame, args []value) value {
		as := args[0].([]value)
		return fr.i.format(strings.TrimSpace(strings.Repeat("%v ", len(as))), as, nil)
	})
	e.reg("fmt.Sprintln", func(fr *frame, args []value) value {
		as := args[0].([]value)
		r := fr.i.format(strings.TrimSpace(strings.Repeat("%v ", len(as))), as, nil)
		if s, ok := r.(string); ok {
			return s + "\n"
		}
		return r
	})
	for _, n := range []string{"fmt.Fprintf", "fmt.Fprintln", "fmt.Fprint", "fmt.Printf", "fmt.Println", "fmt.Print"} {
		e.reg(n, noop)
	}
	e.reg("errors.Is", intrErrorsIs)
	e.reg("errors.As", intrErrorsAs)

	// ---- strconv with symbolic operands (concrete operands go native)
	e.reg("strconv.FormatInt", func(fr *frame, args []value) value {
		if t, ok := args[0].(*Term); ok {
			if b, ok := args[1].(int); ok && b == 10 {
				return symStr{itoa: t}
			}
			panic(unsupported("FormatInt of symbolic value with base != 10"))
		}
		return strconv.FormatInt(args[0].(int64), args[1].(int))
	})
	e.reg("strconv.Itoa", func(fr *frame, args []value) value {
		if t, ok := args[0].(*Term); ok {
			return symStr{itoa: t}
		}
		return strconv.Itoa(args[0].(int))
	})
	e.reg("strconv.ParseInt", func(fr *frame, args []value) value {
		s := args[0]
		if ss, ok := s.(symStr); ok {
			s = fr.i.resolveStr(ss)
		}
		if ss, ok := s.(symStr); ok && ss.itoa != nil {
			if b, ok := args[1].(int); ok && (b == 10 || b == 0) {
				if bs, ok := args[2].(int); ok && (bs == 64 || bs == 0) {
					return tuple{ss.itoa, iface{}}
				}
			}
			panic(unsupported("ParseInt(Itoa(sym)) with base/bitsize other than 10/64"))
		}
		str := fr.i.concretizeStr(s)
		n, err := strconv.ParseInt(str, args[1].(int), args[2].(int))
		return tuple{n, fr.i.nativeError(err, "strconv.NumError")}
	})
	e.reg("strconv.Atoi", func(fr *frame, args []value) value {
		s := args[0]
		if ss, ok := s.(symStr); ok {
			s = fr.i.resolveStr(ss)
		}
		if ss, ok := s.(symStr); ok && ss.itoa != nil {
			return tuple{ss.itoa, iface{}}
		}
		n, err := strconv.Atoi(fr.i.concretizeStr(s))
		return tuple{n, fr.i.nativeError(err, "strconv.NumError")}
	})

	// ---- os
	e.reg("os.Getenv", func(fr *frame, args []value) value {
		return fr.i.path.env[fr.i.concretizeStr(args[0])]
	})
	e.reg("os.LookupEnv", func(fr *frame, args []value) value {
		v, ok := fr.i.path.env[fr.i.concretizeStr(args[0])]
		return tuple{v, ok}
	})

	// ---- sync
	e.reg("(*sync.Mutex).Lock", intrLock)
	e.reg("(*sync.Mutex).Unlock", intrUnlock)
	e.reg("(*sync.Mutex).TryLock", func(fr *frame, args []value) value { panic(unsupported("TryLock")) })
	e.reg("(*sync.RWMutex).Lock", intrLock)
	e.reg("(*sync.RWMutex).Unlock", intrUnlock)
	e.reg("(*sync.RWMutex).RLock", intrRLock)
	e.reg("(*sync.RWMutex).RUnlock", intrRUnlock)
	e.reg("(*sync.Once).Do", func(fr *frame, args []value) value {
		p := args[0].(*value)
		st := (*p).(structure)
		// field 0 is "done" in all supported Go versions (atomic.Uint32 or uint32 wrapped)
		key := fmt.Sprintf("%p", p)
		if fr.i.onceDone == nil {
			fr.i.onceDone = map[string]bool{}
		}
		_ = st
		if fr.i.onceDone[key] {
			return nil
		}
		fr.i.onceDone[key] = true
		call(fr.i, fr, 0, args[1], nil)
		return nil
	})
	e.regPrefix("(*sync.WaitGroup).", func(fr *frame, args []value) value {
		panic(unsupported("sync.WaitGroup"))
	})
	e.regPrefix("sync/atomic.", intrAtomic)
	e.regPrefix("(*sync/atomic.", intrAtomic)
	e.regPrefix("internal/runtime/atomic.", intrAtomic)

	// ---- logging: empty bodies
	e.regPrefix("(github.com/go-logr/logr.Logger).", noop)
	e.reg("github.com/go-logr/logr.NewContext", func(fr *frame, args []value) value { return args[0] })
	e.reg("github.com/go-logr/logr.NewContextWithSlogLogger", func(fr *frame, args []value) value { return args[0] })
	e.regPrefix("github.com/go-logr/logr.", noop)
	e.reg("sigs.k8s.io/controller-runtime/pkg/log.FromContext", noop)
	e.reg("sigs.k8s.io/controller-runtime/pkg/log.IntoContext", func(fr *frame, args []value) value { return args[0] })
	e.regPrefix("k8s.io/klog/v2.", noop)
	e.regPrefix("(k8s.io/klog/v2.", noop)

	// ---- runtime bits
	e.reg("runtime.SetFinalizer", noop)
	e.reg("runtime.KeepAlive", noop)
	e.reg("runtime.Gosched", func(fr *frame, args []value) value { fr.i.yield(false); return nil })
	e.reg("runtime.GOMAXPROCS", func(fr *frame, args []value) value { return 1 })
	e.reg("runtime.NumCPU", func(fr *frame, args []value) value { return 1 })

	// ---- sort
	e.reg("sort.Slice", intrSortSlice)
	e.reg("sort.SliceStable", intrSortSlice)
	e.reg("sort.Strings", func(fr *frame, args []value) value {
		s := args[0].([]value)
		strs := make([]string, len(s))
		for k := range s {
			strs[k] = fr.i.concretizeStr(s[k])
		}
		sort.Strings(strs)
		for k := range s {
			s[k] = strs[k]
		}
		return nil
	})

	registerReflectIntrinsics(e)
	registerJSONIntrinsics(e)
	registerK8sIntrinsics(e)
	registerNatives(e)
	registerCEL(e)
	registerAdmission(e)
}

func sameRef(a, b value) bool {
	switch av := a.(type) {
	case *value:
		bv, ok := b.(*value)
		return ok && av == bv
	case *gomap:
		bv, ok := b.(*gomap)
		return ok && av == bv
	case []value:
		bv, ok := b.([]value)
		// same backing array (an empty slice with spare capacity still shares it: appends would collide)
		return ok && cap(av) > 0 && cap(bv) > 0 && &av[:1][0] == &bv[:1][0]
	}
	return false
}

// ------------------------------------------------------------------ locks

type lockState struct {
	writer  bool
	readers int
}

func (i *interpreter) lockOf(p *value) *lockState {
	if i.locks == nil {
		i.locks = map[*value]*lockState{}
	}
	l := i.locks[p]
	if l == nil {
		l = &lockState{}
		i.locks[p] = l
	}
	return l
}

// lockIsVisible: only lock operations of the code under test (and its harness) are scheduling points; locks taken
// inside library code (context, sync.Once ...) keep their blocking semantics but do not add pre-emption points.
func lockIsVisible(fr *frame) bool {
	return fr.caller == nil || fr.caller.fn == nil || fr.i.eng.inRepo(fr.caller.fn)
}

func intrLock(fr *frame, args []value) value {
	i := fr.i
	l := i.lockOf(args[0].(*value))
	if lockIsVisible(fr) {
		i.yield(false)
	}
	i.block(func() bool { return l.writer || l.readers > 0 })
	l.writer = true
	return nil
}

func intrUnlock(fr *frame, args []value) value {
	i := fr.i
	l := i.lockOf(args[0].(*value))
	if !l.writer {
		panic(targetPanic{"fatal error: sync: unlock of unlocked mutex"})
	}
	l.writer = false
	if lockIsVisible(fr) {
		i.yield(false)
	}
	return nil
}

func intrRLock(fr *frame, args []value) value {
	i := fr.i
	l := i.lockOf(args[0].(*value))
	if lockIsVisible(fr) {
		i.yield(false)
	}
	i.block(func() bool { return l.writer })
	l.readers++
	return nil
}

func intrRUnlock(fr *frame, args []value) value {
	i := fr.i
	l := i.lockOf(args[0].(*value))
	if l.readers <= 0 {
		panic(targetPanic{"fatal error: sync: RUnlock of unlocked RWMutex"})
	}
	l.readers--
	if lockIsVisible(fr) {
		i.yield(false)
	}
	return nil
}

func intrAtomic(fr *frame, args []value) value {
	name := fr.fn.Name()
	// methods on atomic.Int32/Int64/Uint32/Uint64/Bool/Pointer[T]/Value: the receiver is a pointer to a struct whose
	// last field "v" holds the value.
	cell := func() *value {
		p := args[0].(*value)
		if p == nil {
			panic(nilDeref())
		}
		if s, ok := (*p).(structure); ok {
			return &s[len(s)-1]
		}
		return p
	}
	switch {
	case name == "Load" || strings.HasPrefix(name, "Load"):
		return *cell()
	case name == "Store" || strings.HasPrefix(name, "Store"):
		*cell() = args[1]
		return nil
	case name == "Add" || strings.HasPrefix(name, "Add"):
		c := cell()
		var t types.Type = fr.fn.Signature.Results().At(0).Type()
		*c = fr.i.binop(addToken, t, *c, args[1])
		return *c
	case name == "Swap" || strings.HasPrefix(name, "Swap"):
		c := cell()
		old := *c
		*c = args[1]
		return old
	case name == "CompareAndSwap" || strings.HasPrefix(name, "CompareAndSwap"):
		c := cell()
		eq := fr.i.eqv(fr.fn.Signature.Params().At(fr.fn.Signature.Params().Len()-1).Type(), *c, args[1])
		b, ok := eq.(bool)
		if !ok {
			b = fr.i.path.decideBool(eq.(*Term))
		}
		if b {
			*c = args[2]
		}
		return b
	}
	panic(unsupported("sync/atomic." + name))
}

// ------------------------------------------------------------------ sort.Slice

func intrSortSlice(fr *frame, args []value) value {
	itf := args[0].(iface)
	s, ok := itf.v.([]value)
	if !ok {
		panic(unsupported("sort.Slice on non-slice"))
	}
	less := args[1]
	lt := func(a, b int) bool {
		r := call(fr.i, fr, 0, less, []value{a, b})
		switch rv := r.(type) {
		case bool:
			return rv
		case *Term:
			return fr.i.path.decideBool(rv)
		}
		panic(unsupported("sort.Slice less returned non-bool"))
	}
	// insertion sort; elements are swapped in place so the closure sees the current order
	et := itf.t.Underlying().(*types.Slice).Elem()
	for a := 1; a < len(s); a++ {
		for b := a; b > 0 && lt(b, b-1); b-- {
			tmp := load(et, &s[b])
			store(et, &s[b], load(et, &s[b-1]))
			store(et, &s[b-1], tmp)
		}
	}
	return nil
}

// ------------------------------------------------------------------ formatting

type symbolicInFormat struct{ what string }

type rendered string

func (r rendered) Format(f fmt.State, verb rune) {
	switch verb {
	case 'q':
		fmt.Fprint(f, strconv.Quote(string(r)))
	default:
		fmt.Fprint(f, string(r))
	}
}

// nativeArg converts an interpreter value to something fmt can print, or panics symbolicInFormat.
func (i *interpreter) nativeArg(v value) interface{} {
	switch x := v.(type) {
	case iface:
		if x.t == nil {
			return nil
		}
		if m := i.findMethod(x.t, "Error"); m != nil && isErrorSig(m) {
			return rendered(i.callString(m, x.v))
		}
		if m := i.findMethod(x.t, "String"); m != nil && isStringSig(m) {
			return rendered(i.callString(m, x.v))
		}
		return i.nativeArg(x.v)
	case string, bool, int, int8, int16, int32, int64, uint, uint8, uint16, uint32, uint64, uintptr, float32, float64:
		return x
	case symStr:
		r := i.resolveStr(x)
		if s, ok := r.(string); ok {
			return s
		}
		panic(symbolicInFormat{"string"})
	case *Term, opaqueStr, *blob:
		panic(symbolicInFormat{"scalar"})
	case *value:
		if x == nil {
			return rendered("<nil>")
		}
		return rendered("&" + i.valueToText(*x))
	case *nativeVal:
		return x.v.Interface()
	}
	return rendered(i.valueToText(v))
}

func (i *interpreter) valueToText(v value) string {
	switch x := v.(type) {
	case iface:
		a := i.nativeArg(x)
		return fmt.Sprint(a)
	case structure:
		var sb strings.Builder
		sb.WriteString("{")
		for k, f := range x {
			if k > 0 {
				sb.WriteString(" ")
			}
			sb.WriteString(i.valueToText(f))
		}
		sb.WriteString("}")
		return sb.String()
	case []value:
		var sb strings.Builder
		sb.WriteString("[")
		for k, f := range x {
			if k > 0 {
				sb.WriteString(" ")
			}
			sb.WriteString(i.valueToText(f))
		}
		sb.WriteString("]")
		return sb.String()
	case array:
		return i.valueToText([]value(x))
	case *gomap:
		var parts []string
		if x != nil {
			for k := range x.keys {
				parts = append(parts, i.valueToText(x.keys[k])+":"+i.valueToText(x.vals[k]))
			}
		}
		sort.Strings(parts)
		return "map[" + strings.Join(parts, " ") + "]"
	case *value:
		if x == nil {
			return "<nil>"
		}
		return "&" + i.valueToText(*x)
	case symStr:
		r := i.resolveStr(x)
		if s, ok := r.(string); ok {
			return s
		}
		panic(symbolicInFormat{"string"})
	case *Term, opaqueStr, *blob:
		panic(symbolicInFormat{"scalar"})
	case nil:
		return "<nil>"
	case *ssa.Function, *closure:
		return "func"
	}
	return fmt.Sprint(i.nativeArg(v))
}

func isErrorSig(f *ssa.Function) bool {
	s := f.Signature
	return s.Params().Len() == 0 && s.Results().Len() == 1 && types.Identical(s.Results().At(0).Type(), types.Typ[types.String])
}
func isStringSig(f *ssa.Function) bool { return isErrorSig(f) }

func (i *interpreter) findMethod(t types.Type, name string) *ssa.Function {
	ms := i.prog.MethodSets.MethodSet(t)
	for k := 0; k < ms.Len(); k++ {
		sel := ms.At(k)
		if sel.Obj().Name() == name && sel.Obj().Exported() {
			return i.prog.MethodValue(sel)
		}
	}
	return nil
}

func (i *interpreter) callString(m *ssa.Function, recv value) string {
	r := callSSA(i, nil, 0, m, []value{recv}, nil)
	switch s := r.(type) {
	case string:
		return s
	case symStr:
		rs := i.resolveStr(s)
		if c, ok := rs.(string); ok {
			return c
		}
	}
	panic(symbolicInFormat{"method result"})
}

// format implements Sprintf; wrapped collects %w operands when non-nil.
func (i *interpreter) format(f value, args []value, wrapped *[]value) (res value) {
	fs, ok := f.(string)
	if !ok {
		fs = i.concretizeStr(f)
	}
	if wrapped != nil {
		// find %w operands
		argi := 0
		for k := 0; k < len(fs); k++ {
			if fs[k] != '%' {
				continue
			}
			k++
			for k < len(fs) && strings.ContainsRune("+-# 0123456789.[]*", rune(fs[k])) {
				k++
			}
			if k >= len(fs) {
				break
			}
			if fs[k] == '%' {
				continue
			}
			if fs[k] == 'w' && argi < len(args) {
				*wrapped = append(*wrapped, args[argi])
			}
			argi++
		}
	}
	defer func() {
		if r := recover(); r != nil {
			if _, ok := r.(symbolicInFormat); ok {
				res = opaqueStr{hint: fs, nonEmpty: formatHasLiteral(fs)}
				return
			}
			panic(r)
		}
	}()
	// finite-symbolic string operands: lift the formatting over their cases (bounded product)
	symIdx := -1
	product := 1
	for k, a := range args {
		av := a
		if it, ok := a.(iface); ok {
			av = it.v
		}
		if ss, ok := av.(symStr); ok {
			r := i.resolveStr(ss)
			if rs, ok := r.(symStr); ok && rs.itoa == nil {
				if symIdx < 0 {
					symIdx = k
				}
				product *= len(rs.cases)
			}
		}
	}
	if symIdx >= 0 && product <= 64 {
		a := args[symIdx]
		var t types.Type = tString
		av := a
		if it, ok := a.(iface); ok {
			av, t = it.v, it.t
		}
		rs := i.resolveStr(av.(symStr)).(symStr)
		var out []strCase
		for _, c := range rs.cases {
			sub := append([]value{}, args...)
			if _, ok := a.(iface); ok {
				sub[symIdx] = iface{t: t, v: c.s}
			} else {
				sub[symIdx] = c.s
			}
			r := i.format(fs, sub, nil)
			switch rv := r.(type) {
			case string:
				out = append(out, strCase{c.g, rv})
			case symStr:
				for _, d := range rv.cases {
					out = append(out, strCase{tAnd(c.g, d.g), d.s})
				}
			default:
				return opaqueStr{hint: fs, nonEmpty: formatHasLiteral(fs)}
			}
		}
		return symStr{cases: out}
	}
	nat := make([]interface{}, len(args))
	verbs := formatVerbs(fs)
	for k, a := range args {
		if k < len(verbs) && !strings.ContainsRune("svqxXw", verbs[k]) {
			// fmt calls Error()/String() only for verbs that are valid for strings; %d of a named integer with a String
			// method prints the number
			if it, ok := a.(iface); ok && it.t != nil {
				nat[k] = i.nativeArg(it.v)
				continue
			}
		}
		nat[k] = i.nativeArg(a)
	}
	return fmt.Sprintf(strings.ReplaceAll(fs, "%w", "%v"), nat...)
}

// formatVerbs returns the verb of each operand of a format string, in order (explicit argument indexes are not
// supported and yield no information).
func formatVerbs(fs string) []rune {
	var out []rune
	for k := 0; k < len(fs); k++ {
		if fs[k] != '%' {
			continue
		}
		k++
		for k < len(fs) && strings.ContainsRune("+-# 0123456789.*", rune(fs[k])) {
			if fs[k] == '*' {
				out = append(out, 'd')
			}
			k++
		}
		if k >= len(fs) {
			break
		}
		if fs[k] == '[' {
			return nil
		}
		if fs[k] == '%' {
			continue
		}
		out = append(out, rune(fs[k]))
	}
	return out
}

func (i *interpreter) namedType(pkgPath, name string) types.Type {
	key := pkgPath + "." + name
	if t, ok := i.eng.typeCache.Load(key); ok {
		return t.(types.Type)
	}
	p := i.prog.ImportedPackage(pkgPath)
	if p == nil {
		panic(unsupported("package not loaded: " + pkgPath))
	}
	m := p.Type(name)
	if m == nil {
		panic(unsupported("type not found: " + key))
	}
	t := m.Type()
	i.eng.typeCache.Store(key, t)
	return t
}

// mkError builds a *errors.errorString value.
func (i *interpreter) mkError(msg value) value {
	t := i.namedType("errors", "errorString")
	var cell value = structure{msg}
	return iface{t: types.NewPointer(t), v: &cell}
}

func (i *interpreter) nativeError(err error, hint string) value {
	if err == nil {
		return iface{}
	}
	return i.mkError(err.Error())
}

func intrErrorf(fr *frame, args []value) value {
	i := fr.i
	var wrapped []value
	msg := i.format(args[0], args[1].([]value), &wrapped)
	switch len(wrapped) {
	case 0:
		return i.mkError(msg)
	case 1:
		t := i.namedType("fmt", "wrapError")
		var cell value = structure{msg, wrapped[0]}
		return iface{t: types.NewPointer(t), v: &cell}
	default:
		t := i.namedType("fmt", "wrapErrors")
		var cell value = structure{msg, append([]value{}, wrapped...)}
		return iface{t: types.NewPointer(t), v: &cell}
	}
}

// unwrapChain calls f on err and everything reachable through Unwrap() error / Unwrap() []error.
func (i *interpreter) walkErrors(err iface, f func(e iface) bool) bool {
	if err.t == nil {
		return false
	}
	if f(err) {
		return true
	}
	if m := i.findMethod(err.t, "Unwrap"); m != nil && m.Signature.Params().Len() == 0 && m.Signature.Results().Len() == 1 {
		r := callSSA(i, nil, 0, m, []value{err.v}, nil)
		switch rv := r.(type) {
		case iface:
			return i.walkErrors(rv, f)
		case []value:
			for _, e := range rv {
				if i.walkErrors(e.(iface), f) {
					return true
				}
			}
		}
	}
	return false
}

func intrErrorsIs(fr *frame, args []value) value {
	i := fr.i
	err, target := args[0].(iface), args[1].(iface)
	if err.t == nil || target.t == nil {
		return err.t == nil && target.t == nil
	}
	var result value = false
	i.walkErrors(err, func(e iface) bool {
		if types.Comparable(target.t) && types.Identical(e.t, target.t) {
			eq := i.eqv(e.t, e.v, target.v)
			b, ok := eq.(bool)
			if !ok {
				b = i.path.decideBool(eq.(*Term))
			}
			if b {
				result = true
				return true
			}
		}
		if m := i.findMethod(e.t, "Is"); m != nil && m.Signature.Params().Len() == 1 {
			r := callSSA(i, nil, 0, m, []value{e.v, target}, nil)
			b, ok := r.(bool)
			if !ok {
				b = i.path.decideBool(r.(*Term))
			}
			if b {
				result = true
				return true
			}
		}
		return false
	})
	return result
}

func intrErrorsAs(fr *frame, args []value) value {
	i := fr.i
	err := args[0].(iface)
	tgt := args[1].(iface)
	if tgt.t == nil {
		panic(targetPanic{"errors: target cannot be nil"})
	}
	pt, ok := tgt.t.Underlying().(*types.Pointer)
	if !ok {
		panic(targetPanic{"errors: target must be a non-nil pointer"})
	}
	targetType := pt.Elem()
	cell := tgt.v.(*value)
	if cell == nil {
		panic(targetPanic{"errors: target must be a non-nil pointer"})
	}
	_, targetIsIface := targetType.Underlying().(*types.Interface)
	found := i.walkErrors(err, func(e iface) bool {
		if targetIsIface {
			if types.Implements(e.t, targetType.Underlying().(*types.Interface)) {
				*cell = e
				return true
			}
		} else if types.Identical(e.t, targetType) {
			store(targetType, cell, e.v)
			return true
		}
		if m := i.findMethod(e.t, "As"); m != nil && m.Signature.Params().Len() == 1 {
			r := callSSA(i, nil, 0, m, []value{e.v, tgt}, nil)
			if b, ok := r.(bool); ok && b {
				return true
			}
		}
		return false
	})
	return found
}
