package symgo

// Symbolic extensions of the value domain: *Term scalars, finite-symbolic strings, opaque strings,
// JSON blobs, native opaque values; and the symbolic versions of binop / unop / conv / equality.

import (
	"fmt"
	"go/token"
	"go/types"
	"reflect"
	"regexp"
	"strconv"
	"strings"

	"golang.org/x/tools/go/ssa"
)

// symStr is a finite-symbolic string: either a list of guarded literals (guards mutually exclusive and
// exhaustive under the path condition) or the decimal rendering of a signed 64-bit term.
type symStr struct {
	cases []strCase
	itoa  *Term
}

type strCase struct {
	g *Term
	s string
}

func (s symStr) describe() string {
	if s.itoa != nil {
		return "<itoa " + trunc(s.itoa.smt, 60) + ">"
	}
	var lits []string
	for _, c := range s.cases {
		lits = append(lits, strconv.Quote(c.s))
	}
	return "<str one-of " + strings.Join(lits, "|") + ">"
}

// opaqueStr is text produced by formatting symbolic data for humans; it may be copied and concatenated only.
type opaqueStr struct {
	hint     string
	nonEmpty bool // known to hold at least one character (a format with literal text, a concatenation with one)
}

var fmtVerb = regexp.MustCompile(`%[-+# 0]*(\[[0-9]+\])?[0-9*]*(\.[0-9*]+)?[a-zA-Z%]`)

// formatHasLiteral reports whether a format string produces at least one character whatever its operands are.
func formatHasLiteral(fs string) bool {
	return strings.TrimSpace(fmtVerb.ReplaceAllString(fs, "")) != "" || strings.Contains(fs, "%%") || strings.Contains(fs, "%q")
}

func knownNonEmpty(v value) bool {
	switch s := v.(type) {
	case string:
		return s != ""
	case opaqueStr:
		return s.nonEmpty
	case symStr:
		if s.itoa != nil {
			return true
		}
		for _, c := range s.cases {
			if c.s == "" {
				return false
			}
		}
		return len(s.cases) > 0
	}
	return false
}

// blob is the result of json.Marshal: it remembers a deep copy of the marshalled value.
type blob struct {
	v    value      // JSON-shaped deep copy (map[string]interface{} / []interface{} / scalars as iface-free values)
	t    types.Type // static type of the source value
	raw  value      // deep copy of the original interpreter value
	text string     // non-empty if concrete text is known
	size value      // length attached by the harness (verifrt.SetJSONSize), if any
}

// nativeVal wraps a native Go value of an opaque type (time.Time ...). Immutable.
type nativeVal struct {
	v reflect.Value
}

func isIntegerType(t types.Type) (w int, sgn bool, ok bool) {
	b, isb := t.Underlying().(*types.Basic)
	if !isb {
		return 0, false, false
	}
	switch b.Kind() {
	case types.Int, types.Int64, types.UntypedInt:
		return 64, true, true
	case types.Int8:
		return 8, true, true
	case types.Int16:
		return 16, true, true
	case types.Int32, types.UntypedRune:
		return 32, true, true
	case types.Uint, types.Uint64, types.Uintptr:
		return 64, false, true
	case types.Uint8:
		return 8, false, true
	case types.Uint16:
		return 16, false, true
	case types.Uint32:
		return 32, false, true
	}
	return 0, false, false
}

// toTerm lifts a concrete scalar to a term.
func toTerm(x value) *Term {
	switch x := x.(type) {
	case *Term:
		return x
	case bool:
		return mkBool(x)
	case int:
		return mkBV(uint64(x), 64)
	case int8:
		return mkBV(uint64(x), 8)
	case int16:
		return mkBV(uint64(x), 16)
	case int32:
		return mkBV(uint64(x), 32)
	case int64:
		return mkBV(uint64(x), 64)
	case uint:
		return mkBV(uint64(x), 64)
	case uint8:
		return mkBV(uint64(x), 8)
	case uint16:
		return mkBV(uint64(x), 16)
	case uint32:
		return mkBV(uint64(x), 32)
	case uint64:
		return mkBV(x, 64)
	case uintptr:
		return mkBV(uint64(x), 64)
	}
	panic(unsupported(fmt.Sprintf("cannot lift %T to a term", x)))
}

// fromConstTerm converts a constant term back to a concrete value of type t.
func fromConstTerm(t types.Type, c *Term) value {
	if c.w == 0 {
		return c.val != 0
	}
	b := t.Underlying().(*types.Basic)
	switch b.Kind() {
	case types.Int, types.UntypedInt:
		return int(signed(c.val, 64))
	case types.Int8:
		return int8(signed(c.val, 8))
	case types.Int16:
		return int16(signed(c.val, 16))
	case types.Int32, types.UntypedRune:
		return int32(signed(c.val, 32))
	case types.Int64:
		return signed(c.val, 64)
	case types.Uint:
		return uint(c.val)
	case types.Uint8:
		return uint8(c.val)
	case types.Uint16:
		return uint16(c.val)
	case types.Uint32:
		return uint32(c.val)
	case types.Uint64:
		return c.val
	case types.Uintptr:
		return uintptr(c.val)
	}
	panic(unsupported("fromConstTerm: " + t.String()))
}

func isSym(x value) bool {
	switch x.(type) {
	case *Term, symStr, opaqueStr, *blob:
		return true
	}
	return false
}

func (i *interpreter) binop(op token.Token, t types.Type, x, y value) value {
	_, xs := x.(*Term)
	_, ys := y.(*Term)
	if xs || ys {
		return i.binopTerm(op, t, x, y)
	}
	switch op {
	case token.EQL:
		return i.symEquals(t, x, y)
	case token.NEQ:
		return symNot(i.symEquals(t, x, y))
	}
	if isSymString(x) || isSymString(y) {
		return i.binopStr(op, x, y)
	}
	return binopConcrete(op, t, x, y)
}

func isSymString(x value) bool {
	switch x.(type) {
	case symStr, opaqueStr, *blob:
		return true
	}
	return false
}

func symNot(v value) value {
	switch v := v.(type) {
	case bool:
		return !v
	case *Term:
		return tNot(v)
	}
	panic(unsupported(fmt.Sprintf("symNot %T", v)))
}

func symAnd(a, b value) value {
	if x, ok := a.(bool); ok {
		if !x {
			return false
		}
		return b
	}
	if y, ok := b.(bool); ok {
		if !y {
			return false
		}
		return a
	}
	return tAnd(a.(*Term), b.(*Term))
}

func symOr(a, b value) value {
	if x, ok := a.(bool); ok {
		if x {
			return true
		}
		return b
	}
	if y, ok := b.(bool); ok {
		if y {
			return true
		}
		return a
	}
	return tOr(a.(*Term), b.(*Term))
}

func simp(t *Term) value {
	if t.cst && t.w == 0 {
		return t.val != 0
	}
	return t
}

func (i *interpreter) binopTerm(op token.Token, t types.Type, x, y value) value {
	a, b := toTerm(x), toTerm(y)
	if a.w == 0 || b.w == 0 {
		// booleans
		switch op {
		case token.EQL:
			return simp(tEq(a, b))
		case token.NEQ:
			return simp(tNot(tEq(a, b)))
		case token.AND, token.LAND:
			return simp(tAnd(a, b))
		case token.OR, token.LOR:
			return simp(tOr(a, b))
		}
		panic(unsupported("bool binop " + op.String()))
	}
	w, sgn, ok := isIntegerType(t)
	if !ok {
		panic(unsupported("symbolic binop on non-integer type " + t.String()))
	}
	_ = w
	if op == token.SHL || op == token.SHR {
		// shift count has its own type; bring it to the width of x (counts are small or saturate)
		if b.w != a.w {
			if b.w > a.w {
				// large count => saturate: if any high bit set the result is 0 / sign
				b = tIteBV(bvCmp("bvuge", b, mkBV(uint64(a.w), b.w)), mkBV(uint64(a.w), a.w), bvResize(b, a.w, false))
			} else {
				b = bvResize(b, a.w, false)
			}
		}
		if op == token.SHL {
			return wrap(t, bvBin("bvshl", a, b))
		}
		if sgn {
			return wrap(t, bvBin("bvashr", a, b))
		}
		return wrap(t, bvBin("bvlshr", a, b))
	}
	if a.w != b.w {
		panic(unsupported(fmt.Sprintf("binop %s width mismatch %d/%d", op, a.w, b.w)))
	}
	switch op {
	case token.ADD:
		return wrap(t, bvBin("bvadd", a, b))
	case token.SUB:
		return wrap(t, bvBin("bvsub", a, b))
	case token.MUL:
		return wrap(t, bvBin("bvmul", a, b))
	case token.QUO, token.REM:
		// division by zero panics
		z := tEq(b, mkBV(0, b.w))
		if i.path.decideBool(z) {
			panic(targetPanic{"runtime error: integer divide by zero"})
		}
		if op == token.QUO {
			if sgn {
				return wrap(t, bvBin("bvsdiv", a, b))
			}
			return wrap(t, bvBin("bvudiv", a, b))
		}
		if sgn {
			return wrap(t, bvBin("bvsrem", a, b))
		}
		return wrap(t, bvBin("bvurem", a, b))
	case token.AND:
		return wrap(t, bvBin("bvand", a, b))
	case token.OR:
		return wrap(t, bvBin("bvor", a, b))
	case token.XOR:
		return wrap(t, bvBin("bvxor", a, b))
	case token.AND_NOT:
		return wrap(t, bvBin("bvand", a, bvNot(b)))
	case token.EQL:
		return simp(tEq(a, b))
	case token.NEQ:
		return simp(tNot(tEq(a, b)))
	case token.LSS:
		if sgn {
			return simp(bvCmp("bvslt", a, b))
		}
		return simp(bvCmp("bvult", a, b))
	case token.LEQ:
		if sgn {
			return simp(bvCmp("bvsle", a, b))
		}
		return simp(bvCmp("bvule", a, b))
	case token.GTR:
		if sgn {
			return simp(bvCmp("bvsgt", a, b))
		}
		return simp(bvCmp("bvugt", a, b))
	case token.GEQ:
		if sgn {
			return simp(bvCmp("bvsge", a, b))
		}
		return simp(bvCmp("bvuge", a, b))
	}
	panic(unsupported("symbolic binop " + op.String()))
}

func tIteBV(c, a, b *Term) *Term { return tIte(c, a, b) }

// wrap returns a concrete value when the term is constant.
func wrap(t types.Type, x *Term) value {
	if x.cst {
		return fromConstTerm(t, x)
	}
	return x
}

func (i *interpreter) unop(instr *ssa.UnOp, x value) value {
	if instr.Op == token.ARROW {
		return i.chanRecv(x, instr.X.Type().Underlying().(*types.Chan).Elem(), instr.CommaOk)
	}
	if tx, ok := x.(*Term); ok {
		switch instr.Op {
		case token.NOT:
			return simp(tNot(tx))
		case token.SUB:
			return wrap(instr.X.Type(), bvNeg(tx))
		case token.XOR:
			return wrap(instr.X.Type(), bvNot(tx))
		}
		panic(unsupported("symbolic unop " + instr.Op.String()))
	}
	return unopConcrete(instr, x)
}

func (i *interpreter) conv(tDst, tSrc types.Type, x value) value {
	switch xv := x.(type) {
	case *Term:
		if xv.w == 0 {
			return xv
		}
		wd, _, okd := isIntegerType(tDst)
		_, ss, oks := isIntegerType(tSrc)
		if okd && oks {
			return wrap(tDst, bvResize(xv, wd, ss))
		}
		if b, ok := tDst.Underlying().(*types.Basic); ok && b.Info()&types.IsFloat != 0 {
			panic(unsupported("symbolic int -> float conversion"))
		}
		panic(unsupported(fmt.Sprintf("conversion of symbolic %s -> %s", tSrc, tDst)))
	case symStr:
		if b, ok := tDst.Underlying().(*types.Basic); ok && b.Kind() == types.String {
			return x
		}
		return convConcrete(tDst, tSrc, i.concretizeStr(xv))
	case opaqueStr:
		if b, ok := tDst.Underlying().(*types.Basic); ok && b.Kind() == types.String {
			return x
		}
		if _, ok := tDst.Underlying().(*types.Slice); ok {
			return &blob{text: "", raw: x}
		}
		panic(unsupported("conversion of opaque string to " + tDst.String()))
	case *blob:
		// []byte <-> string keeps the blob
		return x
	case []value:
		// []byte -> string where bytes may be concrete: handled by convConcrete
	}
	return convConcrete(tDst, tSrc, x)
}

// ---------------------------------------------------------------- strings

// resolveStr simplifies a symbolic string under the facts known on the path.
func (i *interpreter) resolveStr(s symStr) value {
	if s.itoa != nil {
		if s.itoa.cst {
			return strconv.FormatInt(signed(s.itoa.val, 64), 10)
		}
		return s
	}
	var live []strCase
	for _, c := range s.cases {
		if v, ok := i.path.known(c.g); ok {
			if v {
				return c.s
			}
			continue
		}
		live = append(live, c)
	}
	if len(live) == 1 {
		return live[0].s
	}
	if len(live) == 0 {
		panic(pathAbort{abortInfeasible, "string with no feasible case"})
	}
	return symStr{cases: live}
}

// concretizeStr forks the path over the feasible literals of s.
func (i *interpreter) concretizeStr(x value) string {
	switch s := x.(type) {
	case string:
		return s
	case symStr:
		r := i.resolveStr(s)
		if c, ok := r.(string); ok {
			return c
		}
		s = r.(symStr)
		if s.itoa != nil {
			panic(unsupported("concretisation of Itoa(symbolic)"))
		}
		guards := make([]*Term, len(s.cases))
		for k, c := range s.cases {
			guards[k] = c.g
		}
		k := i.path.choose(len(s.cases), guards)
		return s.cases[k].s
	case opaqueStr:
		panic(unsupported("inspection of opaque (formatted) string: " + s.hint))
	case *blob:
		if s.text != "" {
			return s.text
		}
		panic(unsupported("inspection of JSON blob text"))
	}
	panic(unsupported(fmt.Sprintf("concretizeStr %T", x)))
}

// concreteKey makes a map key concrete (forking over symbolic strings).
func (i *interpreter) concreteKey(k value) value {
	switch kv := k.(type) {
	case symStr:
		return i.concretizeStr(kv)
	case iface:
		if _, ok := kv.v.(symStr); ok {
			return iface{t: kv.t, v: i.concretizeStr(kv.v)}
		}
	case structure:
		var out structure
		for idx, f := range kv {
			var nf value
			switch {
			case isSymString(f):
				nf = i.concretizeStr(f)
			default:
				if sub, ok := f.(structure); ok {
					if c := i.concreteKey(sub); !sameStructure(c, sub) {
						nf = c
					}
				}
			}
			if nf != nil {
				if out == nil {
					out = append(structure{}, kv...)
				}
				out[idx] = nf
			}
		}
		if out != nil {
			return out
		}
	}
	return k
}

// sameStructure reports whether concreteKey returned its argument unchanged.
func sameStructure(a value, b structure) bool {
	as, ok := a.(structure)
	return ok && len(as) == len(b) && (len(b) == 0 || &as[0] == &b[0])
}

func (i *interpreter) symLen(x value) value {
	if i.path.concrete {
		// concrete mode (translator validation): lengths of texts the engine does not materialise are only ever
		// tested for emptiness by the code under test
		switch s := x.(type) {
		case opaqueStr:
			return 10
		case *blob:
			if s.text != "" {
				return len(s.text)
			}
			if n, ok := s.size.(int64); ok {
				return int(n)
			}
			return 100
		}
	}
	switch s := x.(type) {
	case symStr:
		r := i.resolveStr(s)
		if c, ok := r.(string); ok {
			return len(c)
		}
		s = r.(symStr)
		if s.itoa != nil {
			v, _ := i.path.newVar("len_itoa", 64, "int")
			i.path.draws = i.path.draws[:len(i.path.draws)-1] // internal variable, not a harness draw
			i.path.assertPC(tAnd(bvCmp("bvsge", v, mkBV(1, 64)), bvCmp("bvsle", v, mkBV(20, 64))))
			return v
		}
		same := true
		for _, c := range s.cases {
			if len(c.s) != len(s.cases[0].s) {
				same = false
			}
		}
		if same {
			return len(s.cases[0].s)
		}
		t := mkBV(uint64(len(s.cases[len(s.cases)-1].s)), 64)
		for k := len(s.cases) - 2; k >= 0; k-- {
			t = tIte(s.cases[k].g, mkBV(uint64(len(s.cases[k].s)), 64), t)
		}
		return t
	case opaqueStr:
		v, _ := i.path.newVar("len_opaque", 64, "int")
		i.path.draws = i.path.draws[:len(i.path.draws)-1]
		i.path.assertPC(tAnd(bvCmp("bvsge", v, mkBV(0, 64)), bvCmp("bvsle", v, mkBV(1<<20, 64))))
		return v
	case *blob:
		if s.text != "" {
			return len(s.text)
		}
		if s.size != nil {
			switch sz := s.size.(type) {
			case int64:
				return int(sz)
			case *Term:
				return sz
			}
			return s.size
		}
		v, _ := i.path.newVar("len_blob", 64, "int")
		i.path.draws = i.path.draws[:len(i.path.draws)-1]
		i.path.assertPC(tAnd(bvCmp("bvsge", v, mkBV(2, 64)), bvCmp("bvsle", v, mkBV(1<<30, 64))))
		return v
	}
	panic(unsupported(fmt.Sprintf("symLen %T", x)))
}

// strEq returns the (possibly symbolic) equality of two string values.
func (i *interpreter) strEq(x, y value) value {
	if sx, ok := x.(symStr); ok {
		x = i.resolveStr(sx)
	}
	if sy, ok := y.(symStr); ok {
		y = i.resolveStr(sy)
	}
	if o, ok := y.(opaqueStr); ok {
		if xs, isStr := x.(string); isStr && xs == "" && o.nonEmpty {
			return false
		}
		panic(unsupported("comparison of opaque string"))
	}
	switch xv := x.(type) {
	case string:
		switch yv := y.(type) {
		case string:
			return xv == yv
		case symStr:
			return i.strEq(y, x)
		}
	case symStr:
		switch yv := y.(type) {
		case string:
			if xv.itoa != nil {
				n, err := strconv.ParseInt(yv, 10, 64)
				if err != nil || strconv.FormatInt(n, 10) != yv {
					return false
				}
				return simp(tEq(xv.itoa, mkBV(uint64(n), 64)))
			}
			var r value = false
			for _, c := range xv.cases {
				if c.s == yv {
					r = symOr(r, simp(c.g))
				}
			}
			return r
		case symStr:
			if xv.itoa != nil && yv.itoa != nil {
				return simp(tEq(xv.itoa, yv.itoa))
			}
			if xv.itoa != nil || yv.itoa != nil {
				it, cs := xv, yv
				if yv.itoa != nil {
					it, cs = yv, xv
				}
				var r value = false
				for _, c := range cs.cases {
					r = symOr(r, symAnd(simp(c.g), i.strEq(it, c.s)))
				}
				return r
			}
			var r value = false
			for _, c := range xv.cases {
				for _, d := range yv.cases {
					if c.s == d.s {
						r = symOr(r, symAnd(simp(c.g), simp(d.g)))
					}
				}
			}
			return r
		}
	}
	panic(unsupported(fmt.Sprintf("string equality on %T / %T", x, y)))
}

func (i *interpreter) binopStr(op token.Token, x, y value) value {
	switch op {
	case token.ADD:
		if _, ok := x.(opaqueStr); ok {
			return opaqueStr{hint: "concat", nonEmpty: knownNonEmpty(x) || knownNonEmpty(y)}
		}
		if _, ok := y.(opaqueStr); ok {
			return opaqueStr{hint: "concat", nonEmpty: knownNonEmpty(x) || knownNonEmpty(y)}
		}
		sx, okx := x.(symStr)
		sy, oky := y.(symStr)
		if (okx && sx.itoa != nil) || (oky && sy.itoa != nil) {
			return opaqueStr{hint: "concat-itoa", nonEmpty: true}
		}
		return i.liftStr2(x, y, func(a, b string) string { return a + b })
	case token.LSS, token.LEQ, token.GTR, token.GEQ:
		a, b := i.concretizeStr(x), i.concretizeStr(y)
		return binopConcrete(op, types.Typ[types.String], a, b)
	}
	panic(unsupported("string binop " + op.String()))
}

func strCases(x value) []strCase {
	switch v := x.(type) {
	case string:
		return []strCase{{termTrue, v}}
	case symStr:
		if v.itoa != nil {
			panic(unsupported("string function over Itoa(symbolic)"))
		}
		return v.cases
	}
	panic(unsupported(fmt.Sprintf("strCases %T", x)))
}

func (i *interpreter) liftStr2(x, y value, f func(a, b string) string) value {
	if sx, ok := x.(symStr); ok {
		x = i.resolveStr(sx)
	}
	if sy, ok := y.(symStr); ok {
		y = i.resolveStr(sy)
	}
	var out []strCase
	for _, a := range strCases(x) {
		for _, b := range strCases(y) {
			g := tAnd(a.g, b.g)
			r := f(a.s, b.s)
			merged := false
			for k := range out {
				if out[k].s == r {
					out[k].g = tOr(out[k].g, g)
					merged = true
				}
			}
			if !merged {
				out = append(out, strCase{g, r})
			}
		}
	}
	if len(out) == 1 {
		return out[0].s
	}
	return symStr{cases: out}
}

// ---------------------------------------------------------------- equality

// symEquals implements == for any comparable type, returning bool or *Term.
func (i *interpreter) symEquals(t types.Type, x, y value) value {
	switch t.Underlying().(type) {
	case *types.Map, *types.Signature, *types.Slice:
		return eqnil(t, x, y)
	}
	return i.eqv(t, x, y)
}

func (i *interpreter) eqv(t types.Type, x, y value) value {
	switch xv := x.(type) {
	case *Term:
		return simp(tEq(xv, toTerm(y)))
	case symStr, opaqueStr:
		if o, ok := x.(opaqueStr); ok {
			if ys, isStr := y.(string); isStr && ys == "" && o.nonEmpty {
				return false
			}
			panic(unsupported("comparison of opaque string"))
		}
		return i.strEq(x, y)
	case string:
		if _, ok := y.(string); !ok {
			return i.strEq(x, y)
		}
		return xv == y.(string)
	case *blob:
		// two JSON texts produced by the marshalling intrinsic are equal iff the marshalled values are (the real
		// encoder is deterministic: struct field order, sorted map keys)
		yv, ok := y.(*blob)
		if !ok {
			panic(unsupported("comparison of JSON blob with non-blob"))
		}
		if xv.text != "" || yv.text != "" {
			return xv.text == yv.text && xv.raw == nil && yv.raw == nil
		}
		if xv.t == nil || yv.t == nil {
			return xv.t == nil && yv.t == nil
		}
		if !types.Identical(xv.t, yv.t) {
			return false
		}
		return i.deepEqual(xv.t, xv.raw, yv.raw, deepReflect, 0)
	case structure:
		yv := y.(structure)
		st := t.Underlying().(*types.Struct)
		var r value = true
		for k := 0; k < st.NumFields(); k++ {
			if st.Field(k).Name() == "_" {
				continue
			}
			r = symAnd(r, i.eqv(st.Field(k).Type(), xv[k], yv[k]))
			if b, ok := r.(bool); ok && !b {
				return false
			}
		}
		return r
	case array:
		yv := y.(array)
		et := t.Underlying().(*types.Array).Elem()
		var r value = true
		for k := range xv {
			r = symAnd(r, i.eqv(et, xv[k], yv[k]))
			if b, ok := r.(bool); ok && !b {
				return false
			}
		}
		return r
	case iface:
		yv := y.(iface)
		if xv.t == nil || yv.t == nil {
			return xv.t == nil && yv.t == nil
		}
		if !types.Identical(xv.t, yv.t) {
			return false
		}
		if !types.Comparable(xv.t) {
			panic(targetPanic{"runtime error: comparing uncomparable type " + xv.t.String()})
		}
		return i.eqv(xv.t, xv.v, yv.v)
	case *nativeVal:
		yv, ok := y.(*nativeVal)
		if !ok {
			return false
		}
		return reflect.DeepEqual(xv.v.Interface(), yv.v.Interface())
	case rtype:
		return types.Identical(xv.t, y.(rtype).t)
	case *value:
		return xv == y.(*value)
	case *gochan:
		return xv == y.(*gochan)
	case *gomap, []value, *ssa.Function, *closure:
		return eqnil(t, x, y)
	case bool:
		if ty, ok := y.(*Term); ok {
			return simp(tEq(mkBool(xv), ty))
		}
		return xv == y.(bool)
	}
	if ty, ok := y.(*Term); ok {
		return simp(tEq(toTerm(x), ty))
	}
	// concrete numbers
	return reflect.DeepEqual(x, y) // same dynamic Go types for well-typed programs
}

// ---------------------------------------------------------------- map order

// permuteKeys optionally explores every iteration order of a map (bounded).
func (i *interpreter) permuteKeys(keys []value) []value {
	p := i.path
	if !p.mapOrder || len(keys) < 2 || len(keys) > p.eng.MapOrderMax {
		return keys
	}
	out := make([]value, 0, len(keys))
	rest := append([]value{}, keys...)
	for len(rest) > 1 {
		k := p.choose(len(rest), nil)
		out = append(out, rest[k])
		rest = append(rest[:k:k], rest[k+1:]...)
	}
	return append(out, rest[0])
}
