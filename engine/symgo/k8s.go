package symgo

import (
	"time"
	"fmt"
	"go/types"
	"hash/fnv"
	"sort"
	"strings"
)

// hashText renders a value structurally (pointers followed, map keys sorted, symbolic leaves by their term text).
func hashText(sb *strings.Builder, v value, depth int) {
	if depth > 50 {
		sb.WriteString("<deep>")
		return
	}
	switch x := v.(type) {
	case nil:
		sb.WriteString("nil")
	case *Term:
		sb.WriteString("T(" + x.smt + ")")
	case symStr:
		sb.WriteString(x.describe())
		for _, c := range x.cases {
			sb.WriteString(c.g.smt)
		}
		if x.itoa != nil {
			sb.WriteString(x.itoa.smt)
		}
	case opaqueStr:
		sb.WriteString("O(" + x.hint + ")")
	case *blob:
		sb.WriteString("B(")
		hashText(sb, x.raw, depth+1)
		sb.WriteString(")")
	case iface:
		if x.t == nil {
			sb.WriteString("nil")
			return
		}
		sb.WriteString("(" + x.t.String() + ")")
		hashText(sb, x.v, depth+1)
	case structure:
		sb.WriteString("{")
		for _, f := range x {
			hashText(sb, f, depth+1)
			sb.WriteString(",")
		}
		sb.WriteString("}")
	case array:
		hashText(sb, []value(x), depth+1)
	case []value:
		if x == nil {
			sb.WriteString("nilslice")
			return
		}
		sb.WriteString("[")
		for _, f := range x {
			hashText(sb, f, depth+1)
			sb.WriteString(",")
		}
		sb.WriteString("]")
	case *gomap:
		if x == nil {
			sb.WriteString("nilmap")
			return
		}
		var parts []string
		for k := range x.keys {
			var p strings.Builder
			hashText(&p, x.keys[k], depth+1)
			p.WriteString(":")
			hashText(&p, x.vals[k], depth+1)
			parts = append(parts, p.String())
		}
		sort.Strings(parts)
		sb.WriteString("map[" + strings.Join(parts, ";") + "]")
	case *value:
		if x == nil {
			sb.WriteString("nilptr")
			return
		}
		sb.WriteString("&")
		hashText(sb, *x, depth+1)
	case *nativeVal:
		sb.WriteString(fmt.Sprint(x.v.Interface()))
	default:
		sb.WriteString(fmt.Sprintf("%T:%v", v, v))
	}
}

// group/version by Go package path for typed API objects (what the schemes used by the operator register)
var apiGroups = map[string][2]string{
	"package-operator.run/apis/core/v1alpha1":                                     {"package-operator.run", "v1alpha1"},
	"package-operator.run/apis/manifests/v1alpha1":                                {"manifests.package-operator.run", "v1alpha1"},
	"k8s.io/api/core/v1":                                                          {"", "v1"},
	"k8s.io/api/apps/v1":                                                          {"apps", "v1"},
	"k8s.io/api/batch/v1":                                                         {"batch", "v1"},
	"k8s.io/api/rbac/v1":                                                          {"rbac.authorization.k8s.io", "v1"},
	"k8s.io/apiextensions-apiserver/pkg/apis/apiextensions/v1":                    {"apiextensions.k8s.io", "v1"},
	"k8s.io/api/admissionregistration/v1":                                         {"admissionregistration.k8s.io", "v1"},
	"package-operator.run/internal/apis/manifests":                                {"manifests.package-operator.run", "__internal"},
	"package-operator.run/internal/controllers/hostedclusters/hypershift/v1beta1": {"hypershift.openshift.io", "v1beta1"},
}

func (i *interpreter) gvkValue(g, v, k value) value { return structure{g, v, k} }

func (i *interpreter) missingKindErr(msg string) value {
	return i.mkError("Object 'Kind' is missing in '" + msg + "'")
}

// gvkForObject implements scheme.ObjectKinds / apiutil.GVKForObject.
func (i *interpreter) gvkForObject(obj iface) (value, value) {
	zeroGVK := structure{"", "", ""}
	if obj.t == nil {
		return zeroGVK, i.mkError("nil object")
	}
	pt, ok := obj.t.(*types.Pointer)
	if !ok {
		return zeroGVK, i.mkError("all types must be pointers to structs")
	}
	key := typeKey(pt.Elem())
	switch key {
	case "k8s.io/apimachinery/pkg/apis/meta/v1/unstructured.Unstructured",
		"k8s.io/apimachinery/pkg/apis/meta/v1/unstructured.UnstructuredList",
		"k8s.io/apimachinery/pkg/apis/meta/v1.PartialObjectMetadata",
		"k8s.io/apimachinery/pkg/apis/meta/v1.PartialObjectMetadataList":
		m := i.findMethod(obj.t, "GroupVersionKind")
		var gvk value
		if m != nil {
			gvk = callSSA(i, nil, 0, m, []value{obj.v}, nil)
		} else {
			gk := i.findMethod(obj.t, "GetObjectKind")
			ok := callSSA(i, nil, 0, gk, []value{obj.v}, nil).(iface)
			gvk = callSSA(i, nil, 0, i.findMethod(ok.t, "GroupVersionKind"), []value{ok.v}, nil)
		}
		s := gvk.(structure)
		if e := i.isEmptyValue(tString, s[2]); e {
			return zeroGVK, i.missingKindErr("unstructured object has no kind")
		}
		if e := i.isEmptyValue(tString, s[1]); e {
			return zeroGVK, i.mkError("Object 'apiVersion' is missing in 'unstructured object has no version'")
		}
		return gvk, iface{}
	}
	n, ok := pt.Elem().(*types.Named)
	if !ok || n.Obj().Pkg() == nil {
		return zeroGVK, i.mkError("no kind is registered for the type " + obj.t.String())
	}
	gv, ok := apiGroups[n.Obj().Pkg().Path()]
	if !ok {
		return zeroGVK, i.mkError("no kind is registered for the type " + obj.t.String())
	}
	return structure{gv[0], gv[1], n.Obj().Name()}, iface{}
}

func registerK8sIntrinsics(e *Engine) {
	e.reg("sigs.k8s.io/controller-runtime/pkg/client/apiutil.GVKForObject", func(fr *frame, args []value) value {
		g, err := fr.i.gvkForObject(args[0].(iface))
		return tuple{g, err}
	})
	e.reg("(*k8s.io/apimachinery/pkg/runtime.Scheme).ObjectKinds", func(fr *frame, args []value) value {
		g, err := fr.i.gvkForObject(args[1].(iface))
		if err.(iface).t != nil {
			return tuple{[]value(nil), false, err}
		}
		return tuple{[]value{g}, false, err}
	})
	e.reg("(*k8s.io/apimachinery/pkg/runtime.Scheme).New", func(fr *frame, args []value) value {
		i := fr.i
		gvk := args[1].(structure)
		g, v, k := i.concretizeStr(gvk[0]), i.concretizeStr(gvk[1]), i.concretizeStr(gvk[2])
		for path, gv := range apiGroups {
			if gv[0] == g && gv[1] == v {
				if p := i.prog.ImportedPackage(path); p != nil {
					if tm := p.Type(k); tm != nil {
						var cell value = zero(tm.Type())
						return tuple{iface{t: types.NewPointer(tm.Type()), v: &cell}, iface{}}
					}
				}
			}
		}
		return tuple{iface{}, i.mkError("no kind \"" + k + "\" is registered for version \"" + g + "/" + v + "\" in scheme")}
	})
	e.reg("(*k8s.io/apimachinery/pkg/runtime.Scheme).Recognizes", func(fr *frame, args []value) value {
		return true
	})
	// labels.NewRequirement validates key/values with regular expressions; the model builds the requirement directly
	// (valid keys and values assumed).
	e.reg("k8s.io/apimachinery/pkg/labels.NewRequirement", func(fr *frame, args []value) value {
		t := fr.i.namedType("k8s.io/apimachinery/pkg/labels", "Requirement")
		var cell value = structure{args[0], args[1], args[2]}
		_ = t
		return tuple{&cell, iface{}}
	})
	// csaupgrade works on structured-merge-diff field sets. Its contract as far as callers can see: no legacy
	// client-side-apply manager entry (operation Update, one of the given manager names) => no patch; otherwise a JSON
	// patch of metadata.managedFields.
	e.reg("k8s.io/client-go/util/csaupgrade.UpgradeManagedFieldsPatch", func(fr *frame, args []value) value {
		i := fr.i
		legacy := false
		if it, ok := args[0].(iface); ok && it.t != nil {
			if p, ok := it.v.(*value); ok && p != nil {
				if st, ok := (*p).(structure); ok && len(st) == 1 {
					if root, ok := st[0].(*gomap); ok && root != nil {
						if mdv, ok := root.get("metadata"); ok {
							if md, ok := mdv.(iface).v.(*gomap); ok && md != nil {
								if mfv, ok := md.get("managedFields"); ok {
									if list, ok := mfv.(iface).v.([]value); ok {
										for _, ev := range list {
											em, _ := ev.(iface).v.(*gomap)
											if em == nil {
												continue
											}
											op, _ := em.get("operation")
											mg, _ := em.get("manager")
											opS, _ := op.(iface).v.(string)
											mgS, _ := mg.(iface).v.(string)
											if opS == "Update" && (mgS == "package-operator-manager" || mgS == "package-operator" || mgS == "remote-phase-manger") {
												legacy = true
											}
										}
									}
								}
							}
						}
					}
				}
			}
		}
		_ = i
		if !legacy {
			return tuple{[]value(nil), iface{}}
		}
		text := `[{"op":"replace","path":"/metadata/managedFields","value":[]}]`
		out := make([]value, len(text))
		for k := range text {
			out[k] = text[k]
		}
		return tuple{out, iface{}}
	})
	// content hashes (spew + reflection): modelled as a function of the structural rendering of the arguments, so
	// equal arguments give equal results; the quality of the real hash is outside every claim
	hashIntr := func(fr *frame, args []value) value {
		var sb strings.Builder
		hashText(&sb, args[0], 0)
		sb.WriteString("|")
		hashText(&sb, args[1], 0)
		h := fnv.New64a()
		h.Write([]byte(sb.String()))
		return fmt.Sprintf("h%x", h.Sum64())
	}
	e.reg("package-operator.run/internal/utils.ComputeFNV32Hash", hashIntr)
	e.reg("package-operator.run/internal/utils.ComputeSHA256Hash", hashIntr)
	// Package rendering (text/template, YAML, CEL) cannot be executed by the engine. For harnesses that are not about
	// rendering it is replaced by: success with an instance carrying the package's manifest and no objects, or - if the
	// package contains a file named "bad.yaml" - a validation error. Harnesses build real files for which the real
	// renderer behaves the same way, so native replays stay faithful.
	e.reg("package-operator.run/internal/packages/internal/packagerender.RenderPackageInstance", func(fr *frame, args []value) value {
		i := fr.i
		pkg := args[1].(*value)
		st := (*pkg).(structure)
		files, _ := st[2].(*gomap)
		if files != nil {
			if _, bad := files.get("bad.yaml"); bad {
				return tuple{(*value)(nil), i.mkError("object validation failed (rendering stub)")}
			}
		}
		t := i.namedType("package-operator.run/internal/packages/internal/packagetypes", "PackageInstance")
		inst := zero(t).(structure)
		inst[0], inst[1] = st[0], st[1]
		var cell value = inst
		return tuple{&cell, iface{}}
	})
	// k8s.io/client-go/util/jsonpath evaluates with reflection. Stub: every expression parses and evaluates to the
	// JSON text ["stub"] (harnesses that go through it are about what happens around the lookup, not the lookup).
	e.reg("(*k8s.io/client-go/util/jsonpath.JSONPath).Parse", func(fr *frame, args []value) value {
		if fr.i.jsonpathText == nil {
			fr.i.jsonpathText = map[*value]string{}
		}
		fr.i.jsonpathText[args[0].(*value)] = fr.i.concretizeStr(args[1])
		return iface{}
	})
	e.reg("(*k8s.io/client-go/util/jsonpath.JSONPath).Execute", func(fr *frame, args []value) value {
		i := fr.i
		w := args[1].(iface)
		m := i.findMethod(w.t, "Write")
		if m == nil {
			panic(unsupported("jsonpath.Execute: writer without Write"))
		}
		text := fr.i.jsonpathText[args[0].(*value)]
		if text == "" {
			return iface{} // an empty template prints nothing
		}
		out := `["stub"]`
		if strings.Contains(text, "[*]") {
			out = `[]` // a wildcard over an empty list (the harness supplies such a source object) matches nothing
		}
		var bs []value
		for _, c := range []byte(out) {
			bs = append(bs, c)
		}
		callSSA(i, nil, 0, m, []value{w.v, bs}, nil)
		return iface{}
	})
	// text/template with sprig cannot be executed by the engine. Stub: a template without actions renders to itself,
	// a template containing "{{" fails with a TemplateError. Harnesses only use such templates, for which the real
	// transformer behaves the same way.
	e.reg("(*package-operator.run/internal/controllers/objecttemplate.TemplateTransformer).transform", func(fr *frame, args []value) value {
		i := fr.i
		if b, ok := args[2].(*blob); ok {
			return tuple{b, iface{}} // JSON text produced by json.Marshal in the harness: no template actions
		}
		content := args[2].([]value)
		bs := make([]byte, len(content))
		for k := range content {
			bs[k] = content[k].(byte)
		}
		if strings.Contains(string(bs), "{{") {
			t := i.namedType("package-operator.run/internal/controllers/objecttemplate", "TemplateError")
			var cell value = structure{i.mkError("template: stub parse error")}
			return tuple{[]value(nil), iface{t: types.NewPointer(t), v: &cell}}
		}
		return tuple{content, iface{}}
	})
	// CEL cannot be executed: a package without CEL conditions needs no CEL environment.
	e.reg("package-operator.run/internal/packages/internal/packagerender/celctx.New", func(fr *frame, args []value) value {
		conds, _ := args[0].([]value)
		if len(conds) > 0 {
			panic(unsupported("CEL conditions"))
		}
		return tuple{(*value)(nil), iface{}}
	})
	// retry loops: no real waiting, no jitter
	e.reg("time.Sleep", noop)
	e.reg("k8s.io/apimachinery/pkg/util/wait.Jitter", func(fr *frame, args []value) value { return args[0] })
	e.reg("k8s.io/client-go/util/flowcontrol.(*Backoff).GC", noop)
	// back-off tables only influence requeue delays; but a delay is never zero once Next was called for the id, and
	// callers do branch on "is there a requeue delay"
	e.reg("(*k8s.io/client-go/util/flowcontrol.Backoff).Get", func(fr *frame, args []value) value { return int64(time.Second) })
	e.regPrefix("(*k8s.io/client-go/util/flowcontrol.Backoff).", noop)
	// metrics recorders
	e.regPrefix("(*package-operator.run/internal/metrics.", noop)
	_ = strings.TrimSpace
}
