package symgo

import (
	"encoding/json"
	"fmt"
	"go/types"
	"math/rand"
	"os"
	"path/filepath"
	"runtime"
	"sort"
	"strings"
	"sync"
	"time"

	"golang.org/x/tools/go/packages"
	"golang.org/x/tools/go/ssa"
	"golang.org/x/tools/go/ssa/ssautil"
)

type intrinsic func(fr *frame, args []value) value

// Engine holds the loaded program (read-only after Load) and exploration settings.
type Engine struct {
	Prog            *ssa.Program
	Pkgs            []*ssa.Package
	RepoDir         string
	RepoModules     []string // import path prefixes that count as "code under test"
	SolverName      string
	SolverTimeoutMs int
	Workers         int
	MaxPaths        int
	MaxSteps        int64
	MapOrderMax     int
	MaxThreads      int
	MaxSwitches     int
	tracing         bool
	RecordUnsat     bool // keep the text of discharged (unsat) obligations for a cross-solver re-check
	LoadSeconds     float64

	intrinsics  map[string]intrinsic
	prefixIntr  []prefixIntrinsic
	intrCache   sync.Map // *ssa.Function -> intrinsic (or nil marker)
	natives     map[string]interface{}
	typeCache   sync.Map
	fnInfos     sync.Map
	ifaceChecks sync.Map
	methodCache sync.Map
}

type prefixIntrinsic struct {
	prefix string
	fn     intrinsic
}

type LoadConfig struct {
	Dir      string            // directory of the module under test (/repo)
	Patterns []string          // package patterns
	Overlay  map[string][]byte // extra files
	Tags     []string
	Env      []string
}

func Load(cfg LoadConfig) (*Engine, error) {
	start := time.Now()
	pcfg := &packages.Config{
		Mode:       packages.LoadAllSyntax,
		Dir:        cfg.Dir,
		Overlay:    cfg.Overlay,
		Env:        append(os.Environ(), cfg.Env...),
		BuildFlags: []string{"-tags=" + strings.Join(cfg.Tags, ",")},
	}
	initial, err := packages.Load(pcfg, cfg.Patterns...)
	if err != nil {
		return nil, err
	}
	var errs []string
	packages.Visit(initial, nil, func(p *packages.Package) {
		for _, e := range p.Errors {
			errs = append(errs, e.Error())
		}
	})
	if len(errs) > 0 {
		if len(errs) > 20 {
			errs = errs[:20]
		}
		return nil, fmt.Errorf("load errors:\n%s", strings.Join(errs, "\n"))
	}
	prog, pkgs := ssautil.AllPackages(initial, ssa.InstantiateGenerics|ssa.SanityCheckFunctions&0)
	prog.Build()
	e := &Engine{
		Prog: prog, Pkgs: pkgs, RepoDir: cfg.Dir,
		RepoModules:     []string{"package-operator.run"},
		SolverName:      "z3",
		SolverTimeoutMs: 20000,
		Workers:         runtime.NumCPU(),
		MaxPaths:        200000,
		MaxSteps:        3_000_000,
		MapOrderMax:     4,
		MaxThreads:      1,
		MaxSwitches:     6,
	}
	e.registerIntrinsics()
	// syntax trees and type-checker side tables are no longer needed once all function bodies are built
	initial = nil
	pcfg = nil
	runtime.GC()
	e.LoadSeconds = time.Since(start).Seconds()
	return e, nil
}

func (e *Engine) SetTracing(b bool) { e.tracing = b }

func (e *Engine) inRepo(fn *ssa.Function) bool {
	if fn.Pkg == nil {
		if o := fn.Origin(); o != nil && o.Pkg != nil {
			fn = o
		} else {
			return false
		}
	}
	p := fn.Pkg.Pkg.Path()
	for _, m := range e.RepoModules {
		if p == m || strings.HasPrefix(p, m+"/") {
			return true
		}
	}
	return false
}

// FindFunc locates a package-level function by import path and name.
func (e *Engine) FindFunc(pkgPath, name string) *ssa.Function {
	for _, p := range e.Prog.AllPackages() {
		if p.Pkg.Path() == pkgPath {
			return p.Func(name)
		}
	}
	return nil
}

// RepoFunctions lists every function and method with a body in the loaded packages of the repository (overlay
// harness files excluded), with its SSA instruction count.
func (e *Engine) RepoFunctions() map[string]int {
	out := map[string]int{}
	for fn := range ssautil.AllFunctions(e.Prog) {
		if fn.Blocks == nil || fn.Synthetic != "" || !e.inRepo(fn) {
			continue
		}
		if pos := e.Prog.Fset.Position(fn.Pos()); strings.Contains(pos.Filename, "zz_verif") || strings.Contains(pos.Filename, "/verifrt/") || strings.Contains(pos.Filename, "/verifk8s/") {
			continue
		}
		out[fn.String()] = countInstrs(fn)
	}
	return out
}

// ------------------------------------------------------------------ exploration

type PathOutcome int

const (
	OutcomeOK PathOutcome = iota
	OutcomePruned
	OutcomeViolation
	OutcomeUnsupported
	OutcomeBudget
	OutcomePanic
)

type Result struct {
	Harness       string
	Paths         int
	Completed     int
	Pruned        int
	Unsupported   map[string]int   // reason -> paths
	UnsupportedAt map[string][]int // reason -> decision prefix of one such path
	Budget        int
	Panics        map[string]int
	Violations    []Violation
	Obligations   int
	Discharged    int
	Unknowns      int
	Reached       map[string]int
	Notes         map[string]int
	Funcs         map[string]int
	Solver        SolverStats
	Steps         int64
	InitSteps     int64
	WallSeconds   float64
	Samples       []PathSample
	Witnesses     []PathWitness
	Exhausted     bool // false if MaxPaths hit
	MaxDepth      int
	Nontrivial    int                 // paths that discharged at least one obligation or reached a label
	UnsatQueries  map[string]struct{} `json:"-"` // distinct discharged obligations (SMT-LIB text), capped
}

type PathSample struct {
	Prefix  []int    `json:"decisions"`
	Draws   []*Draw  `json:"draws"`
	Reached []string `json:"reached"`
	Outcome string   `json:"outcome"`
	PC      []string `json:"path_condition,omitempty"`
}

type Options struct {
	MapOrder      bool
	MaxViolations int
	Env           map[string]string
	SingleWorker  bool
	Seed          int64
	OnlyPrefix    []int // run just this path (debugging / replay)
	Bounds        map[string]int
	Witnesses     int // number of completed paths for which a model of the path condition is kept (reservoir sample)
}

// PathWitness is one concrete input (a model of the path condition) of a completed, violation-free path together
// with what the engine observed on that path; the native build must observe the same for these inputs.
type PathWitness struct {
	Prefix  []int    `json:"decisions"`
	Draws   []*Draw  `json:"draws"`
	Reached []string `json:"reached"`
}

func (e *Engine) Explore(fn *ssa.Function, opt Options) *Result {
	start := time.Now()
	res := &Result{Harness: fn.String(), Unsupported: map[string]int{}, UnsupportedAt: map[string][]int{}, Panics: map[string]int{}, Reached: map[string]int{},
		Notes: map[string]int{}, Funcs: map[string]int{}, Exhausted: true, UnsatQueries: map[string]struct{}{}}
	if opt.MaxViolations == 0 {
		opt.MaxViolations = 5
	}
	var mu sync.Mutex
	seenFns := map[*ssa.Function]struct{}{}
	queue := [][]int{{}}
	if opt.OnlyPrefix != nil {
		queue = [][]int{opt.OnlyPrefix}
	}
	active := 0
	started := 0
	wrng := rand.New(rand.NewSource(opt.Seed + 7))
	cond := sync.NewCond(&mu)
	stop := false
	workers := e.Workers
	if opt.SingleWorker || opt.OnlyPrefix != nil {
		workers = 1
	}
	var wg sync.WaitGroup
	for w := 0; w < workers; w++ {
		wg.Add(1)
		go func() {
			defer wg.Done()
			solver, err := NewSolver(e.SolverName)
			if err != nil {
				mu.Lock()
				res.Unsupported["cannot start solver: "+err.Error()]++
				stop = true
				cond.Broadcast()
				mu.Unlock()
				return
			}
			defer solver.Close()
			for {
				mu.Lock()
				for len(queue) == 0 && active > 0 && !stop {
					cond.Wait()
				}
				if stop || (len(queue) == 0 && active == 0) {
					cond.Broadcast()
					mu.Unlock()
					break
				}
				prefix := queue[len(queue)-1]
				queue = queue[:len(queue)-1]
				active++
				started++
				wantWitness := opt.Witnesses > 0 && (started <= opt.Witnesses || wrng.Intn(started) < opt.Witnesses)
				mu.Unlock()

				p := e.runPath(fn, prefix, solver, opt, wantWitness)

				mu.Lock()
				active--
				res.Paths++
				res.Steps += p.steps
				res.InitSteps += p.initSteps
				res.Obligations += p.obligations
				res.Discharged += p.discharged
				res.Unknowns += p.unknowns
				if len(p.taken) > res.MaxDepth {
					res.MaxDepth = len(p.taken)
				}
				for k, v := range p.reached {
					res.Reached[k] += v
				}
				for k, v := range p.notes {
					res.Notes[k] += v
				}
				for f := range p.funcsSeen {
					if _, ok := seenFns[f]; !ok {
						seenFns[f] = struct{}{}
						if e.inRepo(f) {
							res.Funcs[f.String()] = countInstrs(f)
						}
					}
				}
				if p.discharged > 0 || len(p.reached) > 0 {
					res.Nontrivial++
				}
				switch p.outcome {
				case OutcomeOK:
					res.Completed++
				case OutcomePruned:
					res.Pruned++
				case OutcomeUnsupported:
					res.Unsupported[p.outcomeMsg]++
					if _, ok := res.UnsupportedAt[p.outcomeMsg]; !ok {
						res.UnsupportedAt[p.outcomeMsg] = append([]int{}, p.taken...)
					}
				case OutcomeBudget:
					res.Budget++
					res.Unsupported["budget: "+p.outcomeMsg]++
				case OutcomePanic:
					res.Panics[p.outcomeMsg]++
				}
				res.Violations = append(res.Violations, p.violations...)
				for _, q := range p.unsatQueries {
					if len(res.UnsatQueries) < 20000 {
						res.UnsatQueries[q] = struct{}{}
					}
				}
				if len(res.Samples) < 12 && (p.outcome == OutcomeOK || len(p.violations) > 0) && (len(p.reached) > 0 || len(p.violations) > 0) {
					res.Samples = append(res.Samples, p.sample())
				}
				if p.witness != nil {
					if len(res.Witnesses) < opt.Witnesses {
						res.Witnesses = append(res.Witnesses, *p.witness)
					} else {
						res.Witnesses[wrng.Intn(len(res.Witnesses))] = *p.witness
					}
				}
				if opt.OnlyPrefix == nil {
					queue = append(queue, p.forks...)
				}
				if len(res.Violations) >= opt.MaxViolations || res.Paths >= e.MaxPaths {
					if res.Paths >= e.MaxPaths && (len(queue) > 0 || active > 0) {
						res.Exhausted = false
					}
					if len(res.Violations) >= opt.MaxViolations && (len(queue) > 0 || active > 0) {
						res.Exhausted = false
					}
					stop = true
				}
				cond.Broadcast()
				mu.Unlock()
			}
			mu.Lock()
			res.Solver.Add(solver.Stats)
			mu.Unlock()
		}()
	}
	wg.Wait()
	res.WallSeconds = time.Since(start).Seconds()
	return res
}

type pathResult struct {
	*Path
	outcome    PathOutcome
	outcomeMsg string
	witness    *PathWitness
}

func (p *pathResult) sample() PathSample {
	s := PathSample{Prefix: p.taken}
	for _, d := range p.draws {
		s.Draws = append(s.Draws, d)
	}
	for k := range p.reached {
		s.Reached = append(s.Reached, k)
	}
	sort.Strings(s.Reached)
	s.Outcome = [...]string{"ok", "pruned", "violation", "unsupported", "budget", "panic"}[p.outcome]
	for _, c := range p.pc {
		if len(s.PC) < 40 {
			s.PC = append(s.PC, trunc(c.smt, 160))
		}
	}
	return s
}

func (e *Engine) runPath(fn *ssa.Function, prefix []int, solver *Solver, opt Options, wantWitness bool) (pr *pathResult) {
	solver.Reset()
	p := &Path{eng: e, solver: solver, prefix: prefix, facts: map[string]bool{}, reached: map[string]int{},
		bounds: opt.Bounds, maxSteps: e.MaxSteps, env: map[string]string{}, notes: map[string]int{}, funcs: map[string]int{}, funcsSeen: map[*ssa.Function]struct{}{}, mapOrder: opt.MapOrder}
	for k, v := range opt.Env {
		p.env[k] = v
	}
	i := &interpreter{prog: e.Prog, eng: e, path: p, globals: map[*ssa.Global]*value{}, initDone: map[*ssa.Package]bool{},
		sizes: types.SizesFor("gc", "amd64"), ptrIDs: map[*value]int{}}
	if rt := e.Prog.ImportedPackage("runtime"); rt != nil {
		i.runtimeErrorString = rt.Type("errorString").Object().Type()
	}
	pr = &pathResult{Path: p}
	defer func() {
		r := recover()
		if r == nil {
			pr.outcome = OutcomeOK
			if len(p.violations) > 0 {
				pr.outcome = OutcomeViolation
			} else if wantWitness {
				if v, m := p.check(nil, true); v == Sat {
					w := &PathWitness{Prefix: append([]int{}, p.taken...), Draws: p.modelDraws(m)}
					for k := range p.reached {
						w.Reached = append(w.Reached, k)
					}
					sort.Strings(w.Reached)
					pr.witness = w
				}
			}
			return
		}
		switch rv := r.(type) {
		case pathAbort:
			switch rv.kind {
			case abortAssume, abortInfeasible:
				pr.outcome = OutcomePruned
			case abortUnsupported:
				pr.outcome = OutcomeUnsupported
				pr.outcomeMsg = rv.msg
			case abortBudget:
				pr.outcome = OutcomeBudget
				pr.outcomeMsg = rv.msg
			case abortStop:
				pr.outcome = OutcomeViolation
			}
		case targetPanic:
			msg := i.panicString(rv)
			// an uncaught panic of the code under test is a violation of every harness's implicit obligation
			v, m := p.check(nil, true)
			if v == Unsat {
				pr.outcome = OutcomePruned
				return
			}
			label := "no-panic"
			if strings.Contains(msg, "all goroutines are asleep") {
				label = "no-deadlock" // natively a hang, which harnesses detect with a time-out and report under this label
			}
			p.violation(label, m, "uncaught panic: "+msg+" at "+strings.Join(i.panicTrace, " <- "))
			pr.outcome = OutcomePanic
			pr.outcomeMsg = msg
		case engineError:
			pr.outcome = OutcomeUnsupported
			pr.outcomeMsg = "engine error: " + rv.msg
			if e.tracing {
				fmt.Println(rv.stack)
			}
		default:
			buf := make([]byte, 8192)
			n := runtime.Stack(buf, false)
			pr.outcome = OutcomeUnsupported
			pr.outcomeMsg = fmt.Sprintf("engine error: %v", r)
			if e.tracing {
				fmt.Println(string(buf[:n]))
			}
		}
	}()
	i.runMain(fn)
	return pr
}

// ------------------------------------------------------------------ overlay helpers

// OverlayFromDir maps every file under srcDir to the same relative path under dstDir.
func OverlayFromDir(srcDir, dstDir string, overlay map[string][]byte) error {
	return filepath.Walk(srcDir, func(path string, info os.FileInfo, err error) error {
		if err != nil || info.IsDir() {
			return err
		}
		rel, _ := filepath.Rel(srcDir, path)
		b, err := os.ReadFile(path)
		if err != nil {
			return err
		}
		overlay[filepath.Join(dstDir, rel)] = b
		return nil
	})
}

func WriteJSON(path string, v interface{}) error {
	b, err := json.MarshalIndent(v, "", " ")
	if err != nil {
		return err
	}
	return os.WriteFile(path, b, 0o644)
}

// ConcreteRun is the outcome of one concrete (random-input) execution of a harness in the engine.
type ConcreteRun struct {
	Draws     []*Draw
	Failed    []string
	Reached   []string
	Panicked  bool
	PanicMsg  string
	Discarded bool   // an assumption did not hold for these inputs
	Problem   string // unsupported construct etc.
}

// RunConcrete executes fn once with random concrete draws (no solver involved). Used for translator validation: the
// same draws are then replayed natively and the observable outcomes (failed assertions, reached labels, panic)
// must agree.
func (e *Engine) RunConcrete(fn *ssa.Function, seed int64, opt Options) *ConcreteRun {
	solver := &Solver{name: "none", in: nopWriteCloser{}, dead: true}
	p := &Path{eng: e, solver: solver, facts: map[string]bool{}, reached: map[string]int{}, bounds: opt.Bounds,
		maxSteps: e.MaxSteps * 4, env: map[string]string{}, notes: map[string]int{}, funcs: map[string]int{},
		funcsSeen: map[*ssa.Function]struct{}{}, concrete: true, rng: rand.New(rand.NewSource(seed))}
	i := &interpreter{prog: e.Prog, eng: e, path: p, globals: map[*ssa.Global]*value{}, initDone: map[*ssa.Package]bool{},
		sizes: types.SizesFor("gc", "amd64"), ptrIDs: map[*value]int{}}
	if rt := e.Prog.ImportedPackage("runtime"); rt != nil {
		i.runtimeErrorString = rt.Type("errorString").Object().Type()
	}
	out := &ConcreteRun{}
	func() {
		defer func() {
			if r := recover(); r != nil {
				switch rv := r.(type) {
				case pathAbort:
					if rv.kind == abortAssume || rv.kind == abortInfeasible {
						out.Discarded = true
					} else {
						out.Problem = rv.msg
					}
				case targetPanic:
					out.Panicked = true
					out.PanicMsg = i.panicString(rv)
				case engineError:
					out.Problem = "engine error: " + rv.msg
				default:
					out.Problem = fmt.Sprint(r)
				}
			}
		}()
		i.runMain(fn)
	}()
	out.Draws = p.draws
	out.Failed = p.failed
	for k := range p.reached {
		out.Reached = append(out.Reached, k)
	}
	sort.Strings(out.Reached)
	return out
}

type nopWriteCloser struct{}

func (nopWriteCloser) Write(b []byte) (int, error) { return len(b), nil }
func (nopWriteCloser) Close() error                { return nil }
