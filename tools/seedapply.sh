#!/bin/bash
export VERIF_EVIDENCE_DIR=/tmp/verif-scratch-evidence  # keep /verif/evidence for runs against the unchanged /repo
# usage: seedapply.sh <seed>... : applies each seeded change to /repo, runs the quick checks named in its meta.json,
# restores /repo, and records what each check reported in seeded/<seed>/detection.txt
cd /verif
for id in "$@"; do
  checks=$(python3 -c "import json;print(' '.join(json.load(open('/verif/seeded/$id/meta.json'))['checks_that_catch_it']))")
  if ! git -C /repo diff --quiet; then echo "/repo is not clean"; exit 2; fi
  git -C /repo apply /verif/seeded/$id/patch.diff || { echo "seed $id: patch does not apply"; continue; }
  : > seeded/$id/detection.txt
  for p in $checks; do
    out=$(./check $p 2>&1); code=$?
    { echo "## ./check $p  (exit $code) with seeded/$id/patch.diff applied to /repo"; echo "$out" | grep -E "^(VIOLATION|KNOWN-FINDING|INCONCLUSIVE|OK|harness)" | cut -c1-400; echo; } >> seeded/$id/detection.txt
    echo "seed=$id check=$p exit=$code violations=$(echo "$out" | grep -c '^VIOLATION')"
  done
  git -C /repo checkout -- .
done
git -C /repo status --short | head -3
