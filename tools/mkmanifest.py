#!/usr/bin/env python3
# Regenerates /verif/MANIFEST.json from checks.json (claimed checks) and claims.json (texts, not-applicable reasons).
import json,os
root=os.path.dirname(os.path.dirname(os.path.abspath(__file__)))
checks=json.load(open(root+'/checks.json'))
claims=json.load(open(root+'/claims.json'))
props=[json.loads(l) for l in open(root+'/properties.jsonl')]
m={"version":1,
 "setup_cmd":"./setup.sh",
 "hooks":{"guard":"verif","enable":"no source hooks: harness files (//go:build verif) and the internal/verifrt package are injected at load/build time with go/packages Overlay and `go test -tags verif -overlay`; /repo is byte-identical with the guard off",
  "baseline_off_cmd":"cd /repo && for m in . ./apis ./pkg; do (cd $m && GOPROXY=off go test -json -vet=off -count=1 -timeout 25m ./...); done",
  "source_commits":claims.get("source_commits",[]),"add_only":True},
 "engines":[{"name":"symgo","path":"engine","serves_properties":sorted(checks.keys()),
   "kind_free_text":"symbolic executor for go/ssa (concrete shapes, symbolic bit-vector/bool/finite-string scalars), decision-prefix re-execution, z3 -in incremental; counterexamples replayed natively with go test -overlay"}],
 "checks":[],"not_applicable":[],
 "notes":"Every check: exit 0 = all obligations unsat within the bounds in its evidence file; exit 1 + VIOLATION = counterexample reproduced natively; exit 2 = inconclusive (unsupported construct, solver unknown, harness no longer compiles, vacuity witness unreachable). See DESIGN.md."}
for p in props:
    pid=p['id']
    if pid in checks:
        c=claims['claims'][pid]
        m['checks'].append({"property_id":pid,"quick_cmd":"./check %s --tier quick"%pid,"thorough_cmd":"./check %s --tier thorough"%pid,
          "evidence_file":"evidence/%s.json"%pid,"replay_cmd_template":"./bin/symgo replay {path}","engine":"symgo",
          "level_claimed":{"category":"other","text":c['text'],"design_ref":c.get('design_ref','DESIGN.md §5 '+pid)},
          "level_note":c['note'],"technique":"bounded symbolic execution of the real functions' go/ssa form + SMT (z3): path conditions and negated assertions decided by the solver; counterexamples replayed natively"})
    else:
        m['not_applicable'].append({"property_id":pid,"reason":claims['not_applicable'].get(pid,"check not built yet")})
json.dump(m,open(root+'/MANIFEST.json','w'),indent=1)
print("claimed:",[c['property_id'] for c in m['checks']])
