#!/bin/bash
# usage: seedverify.sh <seed-dir-name e.g. C01> -- confirms a seeded change independently in a fresh scratch worktree
# (compiles, existing tests of touched packages pass, demo fails with / passes without) and stores it under /verif/seeded/<name>/
set -u
id=$1
src=/tmp/seed_$id
wt=/tmp/chk_$id
out=/verif/seeded/$id
rm -rf $out; mkdir -p $out
git -C /repo worktree remove --force $wt 2>/dev/null
git -C /repo worktree add -q $wt HEAD || exit 2
cp $src/SEED/patch.diff $out/patch.diff
demo=$(cd $src && git status --short | grep 'zz_seed_demo_test.go' | awk '{print $2}' | head -1)
[ -z "$demo" ] && demo=$(cd $src && find . -name zz_seed_demo_test.go -not -path './SEED/*' | head -1 | sed 's|^\./||')
cp $src/$demo $out/zz_seed_demo_test.go
[ -f $src/SEED/README.md ] && cp $src/SEED/README.md $out/README.md
pkgdir=$(dirname $demo)
cd $wt
if ! git apply $out/patch.diff; then echo "PATCH DOES NOT APPLY"; exit 2; fi
touched=$(git diff --name-only | xargs -n1 dirname | sort -u)
mod=.
case $pkgdir in pkg/*) mod=pkg;; apis/*) mod=apis;; esac
res_build=$(GOPROXY=off go build ./... 2>&1 | tail -3)
res_tests=""
for d in $touched; do
  if [[ $d == pkg/* ]]; then r=$( (cd pkg && GOPROXY=off go test -vet=off -count=1 ./${d#pkg/}/ 2>&1) | tail -1); else r=$(GOPROXY=off go test -vet=off -count=1 ./$d/ 2>&1 | tail -1); fi
  res_tests="$res_tests$d: $r; "
done
cp $out/zz_seed_demo_test.go $wt/$pkgdir/zz_seed_demo_test.go
run_demo() { if [[ $pkgdir == pkg/* ]]; then (cd pkg && GOPROXY=off go test -vet=off -count=1 -run '[Ss]eed' ./${pkgdir#pkg/}/ 2>&1) | tail -1; else GOPROXY=off go test -vet=off -count=1 -run '[Ss]eed' ./$pkgdir/ 2>&1 | tail -1; fi; }
with=$(run_demo)
git apply -R $out/patch.diff
without=$(run_demo)
cd /; git -C /repo worktree remove --force $wt
echo "build: [$res_build]"
echo "existing tests with change: $res_tests"
echo "demo with change: $with"
echo "demo without change: $without"
python3 - "$id" "$pkgdir" "$res_build" "$res_tests" "$with" "$without" <<'PY'
import json,sys
id,pkgdir,b,t,w,wo=sys.argv[1:7]
meta={"seed":id,"demo_package":pkgdir,"build_with_change":b or "ok","existing_tests_with_change":t,"demo_with_change":w,"demo_without_change":wo,
      "demo_cmd":"GOPROXY=off go test -vet=off -count=1 -run [Ss]eed ./%s/"%pkgdir}
json.dump(meta,open('/verif/seeded/%s/meta.json'%id,'w'),indent=1)
PY
