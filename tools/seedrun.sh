#!/bin/bash
export VERIF_EVIDENCE_DIR=/tmp/verif-scratch-evidence  # keep /verif/evidence for runs against the unchanged /repo
# usage: seedrun.sh <seed> <property>... : runs the quick checks against a scratch worktree with the seeded change applied
id=$1; shift
wt=/tmp/run_$id
git -C /repo worktree remove --force $wt 2>/dev/null
git -C /repo worktree add -q $wt HEAD || exit 2
(cd $wt && git apply /verif/seeded/$id/patch.diff) || { echo "patch does not apply"; exit 2; }
for p in "$@"; do
  out=$(VERIF_REPO=$wt /verif/check $p 2>&1)
  code=$?
  echo "seed=$id check=$p exit=$code $(echo "$out" | grep -c '^VIOLATION') violation(s); labels: $(echo "$out" | grep -o 'assertion="[^"]*"' | sort | uniq -c | tr '\n' ' ')"
  echo "$out" | grep "^INCONCLUSIVE" | cut -c1-300 | head -3
done
git -C /repo worktree remove --force $wt
