#!/bin/bash
# re-runs every kept seed against the current checks (first check listed in its meta.json); prints one line per seed
cd /verif
for d in seeded/*/; do
  id=$(basename $d)
  p=$(python3 -c "import json;print(json.load(open('/verif/seeded/$id/meta.json'))['checks_that_catch_it'][0])")
  tools/seedrun.sh $id $p 2>&1 | head -1 | cut -c1-200
done
