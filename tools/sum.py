import sys,json
t=sys.stdin.read()
try:
    i=t.index('\n{'); 
except ValueError:
    print(t[-3000:]); sys.exit()
print(t[:i]); r=json.loads(t[i:]); r.pop('Samples',None); v=r.pop('Violations') or []; r.pop('Notes',None)
print(json.dumps(r,indent=1))
seen=set()
for x in v[:int(sys.argv[1]) if len(sys.argv)>1 else 6]:
    print('VIOL',x['label'], 'prefix',','.join(map(str,x['prefix'])))
    print('   ', [(d['label'],d.get('str',d['val'])) for d in x['draws']])
    print('   ', x.get('detail','')[:400])
