#!/usr/bin/env python3
# writes /verif/HARNESSES.md: every registered harness per property with what it covers and its bounds (from checks.json)
import json
c = json.load(open('/verif/checks.json'))
out = ["# Registered harnesses (generated from checks.json by tools/mkharnesstable.py)\n",
       "One row per harness configuration. `quick`/`thorough` are the bounds handed to the harness (`verifrt.Bound`); "
       "`threads`/`switches` are the scheduler's goroutine and pre-emption bounds; `map order` means the iteration "
       "orders of the maps ranged over by the code under test are explored.\n"]
for pid in sorted(c):
    out.append(f"\n## {pid}\n")
    out.append("| harness | covers | quick | thorough | scheduler / map order |")
    out.append("|---|---|---|---|---|")
    for h in c[pid]['harnesses']:
        def b(t):
            d = h.get(t) or {}
            s = ", ".join(f"{k}={v}" for k, v in (d.get('bounds') or {}).items()) or "-"
            if d.get('max_paths'):
                s += f" (path budget {d['max_paths']})"
            return s
        q, t = b('quick'), b('thorough')
        if h.get('only_tier') == 'thorough':
            q = "not run"
        sched = []
        if h.get('threads', 0) > 1:
            sched.append(f"threads<={h['threads']}, pre-emptions<={h.get('switches', 6)}")
        if h.get('map_order'):
            sched.append("map order")
        out.append(f"| `{h['pkg'].replace('package-operator.run/','')}.{h['func']}` | {h.get('about','')} | {q} | {t} | {'; '.join(sched) or '-'} |")
    if c[pid].get('outside_the_claim'):
        out.append("\nOutside the claim: " + "; ".join(c[pid]['outside_the_claim']) + ".")
open('/verif/HARNESSES.md', 'w').write("\n".join(out) + "\n")
