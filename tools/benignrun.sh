#!/bin/bash
export VERIF_EVIDENCE_DIR=/tmp/verif-scratch-evidence  # keep /verif/evidence for runs against the unchanged /repo
# usage: benignrun.sh <ID> <check>... : applies each /tmp/benign_<ID>/OUT/change<k>.diff to a scratch worktree and runs the
# quick checks; a behaviour-preserving change must leave every check at exit 0
id=$1; shift
for k in 1 2 3; do
  d=/tmp/benign_$id/OUT/change$k.diff
  [ -f $d ] || continue
  wt=/tmp/brun_${id}_$k
  git -C /repo worktree remove --force $wt 2>/dev/null
  git -C /repo worktree add -q $wt HEAD || exit 2
  (cd $wt && git apply $d) || { echo "benign=$id/$k patch does not apply"; git -C /repo worktree remove --force $wt; continue; }
  for p in "$@"; do
    out=$(VERIF_REPO=$wt /verif/check $p 2>&1); code=$?
    echo "benign=$id/$k check=$p exit=$code $(echo "$out" | grep -c '^VIOLATION') violation(s) $(echo "$out" | grep -o 'assertion="[^"]*"' | sort | uniq -c | tr '\n' ' ')"
    echo "$out" | grep "^INCONCLUSIVE" | cut -c1-400 | head -3
  done
  git -C /repo worktree remove --force $wt
done
