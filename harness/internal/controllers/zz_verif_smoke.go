//go:build verif

package controllers

import (
	"strconv"

	"k8s.io/apimachinery/pkg/apis/meta/v1/unstructured"

	"package-operator.run/internal/verifrt"
)

// VerifSmoke exercises the engine: getObjectRevision/setObjectRevision round trip for any int64.
func VerifSmoke() {
	obj := &unstructured.Unstructured{Object: map[string]interface{}{}}
	rev := verifrt.Int64("rev")
	kind := verifrt.IntRange("annotationKind", 0, 3)
	switch kind {
	case 0: // absent
	case 1:
		obj.SetAnnotations(map[string]string{"package-operator.run/revision": ""})
	case 2:
		obj.SetAnnotations(map[string]string{"package-operator.run/revision": "garbage"})
	case 3:
		obj.SetAnnotations(map[string]string{"package-operator.run/revision": strconv.FormatInt(rev, 10)})
	}
	got, err := getObjectRevision(obj)
	switch kind {
	case 0, 1:
		verifrt.Assert(err == nil && got == 0, "absent-is-zero")
	case 2:
		verifrt.Assert(err != nil, "garbage-errors")
	case 3:
		verifrt.Assert(err == nil && got == rev, "roundtrip")
		verifrt.Reach("roundtrip")
	}
	rev2 := verifrt.Int64("rev2")
	setObjectRevision(obj, rev2)
	got2, err2 := getObjectRevision(obj)
	verifrt.Assert(err2 == nil && got2 == rev2, "set-get")
	if rev2 > rev {
		verifrt.Reach("greater")
		verifrt.Assert(got2 >= rev+1 || rev == 9223372036854775807, "arith")
	}
	verifrt.Assert(got2 != 12345, "expected-violation")
}
