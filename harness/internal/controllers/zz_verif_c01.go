//go:build verif

package controllers

import (
	"context"
	"encoding/json"
	"strconv"

	"k8s.io/apimachinery/pkg/api/meta"
	metav1 "k8s.io/apimachinery/pkg/apis/meta/v1"
	"k8s.io/apimachinery/pkg/apis/meta/v1/unstructured"
	"k8s.io/apimachinery/pkg/types"
	"sigs.k8s.io/controller-runtime/pkg/client"

	corev1alpha1 "package-operator.run/apis/core/v1alpha1"
	manifestsv1alpha1 "package-operator.run/apis/manifests/v1alpha1"
	"package-operator.run/internal/constants"
	"package-operator.run/internal/verifrt"
)

// vAdoptionScenario is the symbolic pre-state shared by the C01/C02/C10 harnesses: an owner revision, its declared
// previous revisions (with delegated phases) and a pre-existing object with arbitrary owner references, revision
// annotation and labels.
type vAdoptionScenario struct {
	strategyKind int
	strategy     ownerStrategy
	owner        PhaseObjectOwner
	me           vEntity
	myRev        int64
	prev         []PreviousObjectSet
	prevEnts     []vEntity // previous revisions and their remote phases
	refs         []vRef
	revKind      int   // 0 absent, 1 empty, 2 garbage, 3 number
	objRev       int64 // recorded revision (0 when absent/empty)
	pkgLabel     int   // 0 none, 1 "package-operator", 2 other
	forced       bool
	cp           corev1alpha1.CollisionProtection
	existing     *unstructured.Unstructured
	desired      *unstructured.Unstructured
	key          client.ObjectKey
}

const vNS = "ns"

func vDrawRef(prefix string) vRef {
	if verifrt.Bound("refUniverse", 0) == 1 {
		// reduced identifier universes, so that two references fit into the path budget
		r := vRef{
			APIVersion: verifrt.StringFrom(prefix+".apiVersion", pkoAPIVersion, "apps/v1"),
			Kind:       verifrt.StringFrom(prefix+".kind", "ObjectSet", "ClusterObjectSet", "ObjectSetPhase"),
			Name:       verifrt.StringFrom(prefix+".name", "me", "prev1", "rp1"),
			UID:        verifrt.StringFrom(prefix+".uid", "uid-me", "uid-prev1", "uid-rp1", "uid-other"),
		}
		r.HasCtrl = verifrt.Bool(prefix + ".hasController")
		if r.HasCtrl {
			r.Ctrl = verifrt.Bool(prefix + ".controller")
		}
		return r
	}
	r := vRef{
		APIVersion: verifrt.StringFrom(prefix+".apiVersion", pkoAPIVersion, "package-operator.run/v1beta1", "apps/v1"),
		Kind:       verifrt.StringFrom(prefix+".kind", "ObjectSet", "ClusterObjectSet", "ObjectSetPhase", "ClusterObjectSetPhase", "Deployment"),
		Name:       verifrt.StringFrom(prefix+".name", "me", "prev1", "prev2", "rp1", "rp2", "other"),
		UID:        verifrt.StringFrom(prefix+".uid", "uid-me", "uid-prev1", "uid-prev2", "uid-rp1", "uid-rp2", "uid-other"),
	}
	r.HasCtrl = verifrt.Bool(prefix + ".hasController")
	if r.HasCtrl {
		r.Ctrl = verifrt.Bool(prefix + ".controller")
	}
	return r
}

func vNewAdoptionScenario(strategyKind int) *vAdoptionScenario {
	return vNewScenario(strategyKind, false)
}

// vNewScenario: with ownershipOnly the draws that only matter to the adoption decision (revision annotation, package
// label, forced adoption, collision protection) are fixed.
func vNewScenario(strategyKind int, ownershipOnly bool) *vAdoptionScenario {
	s := &vAdoptionScenario{strategyKind: strategyKind}
	scheme := vScheme()
	s.strategy = vStrategy(strategyKind, scheme)

	ownerKind := verifrt.IntRange("ownerKind", 0, 1) // ObjectSet | ClusterObjectSet
	s.myRev = verifrt.Int64("ownerRevision")
	verifrt.Assume(s.myRev >= 1 && s.myRev < 1<<62)
	s.owner, s.me = vObjectSetOwner(ownerKind, "me", "uid-me", vNS, s.myRev, false)

	// previous revisions, each with 0..1 delegated phases
	nPrev := verifrt.IntRange("nPrev", 0, verifrt.Bound("maxPrev", 1))
	for k := 1; k <= nPrev; k++ {
		name, uid := "prev"+strconv.Itoa(k), "uid-prev"+strconv.Itoa(k)
		po, pe := vObjectSetOwner(ownerKind, name, uid, vNS, 0, false)
		p := &vPrev{Object: po.ClientObject()}
		s.prevEnts = append(s.prevEnts, pe)
		if verifrt.Bool(name + ".hasRemotePhase") {
			rp := corev1alpha1.RemotePhaseReference{Name: "rp" + strconv.Itoa(k), UID: types.UID("uid-rp" + strconv.Itoa(k))}
			p.remotes = append(p.remotes, rp)
			kind := "ObjectSetPhase"
			if ownerKind == 1 {
				kind = "ClusterObjectSetPhase"
			}
			s.prevEnts = append(s.prevEnts, vEntity{APIVersion: pkoAPIVersion, Kind: kind, Name: rp.Name, UID: string(rp.UID)})
			// a revision with two delegated phases (the identity "rp2" is free while there is one previous revision)
			if nPrev == 1 && verifrt.Bool(name+".hasSecondRemotePhase") {
				rp2 := corev1alpha1.RemotePhaseReference{Name: "rp2", UID: "uid-rp2"}
				p.remotes = append(p.remotes, rp2)
				s.prevEnts = append(s.prevEnts, vEntity{APIVersion: pkoAPIVersion, Kind: kind, Name: rp2.Name, UID: string(rp2.UID)})
			}
		}
		s.prev = append(s.prev, p)
	}

	// the pre-existing object
	s.existing = &unstructured.Unstructured{Object: map[string]interface{}{}}
	s.existing.SetAPIVersion("v1")
	s.existing.SetKind("ConfigMap")
	s.existing.SetName("obj")
	s.existing.SetNamespace(vNS)
	s.existing.SetUID("uid-obj")
	s.existing.SetResourceVersion("41")
	s.key = client.ObjectKey{Namespace: vNS, Name: "obj"}

	nRefs := verifrt.IntRange("nRefs", 0, verifrt.Bound("maxRefs", 1))
	for k := 0; k < nRefs; k++ {
		s.refs = append(s.refs, vDrawRef("ref"+strconv.Itoa(k)))
	}
	// API contract: at most one owner reference has controller=true, and uids are unique (ownerReferences is a
	// map-list keyed by uid).
	verifrt.Assume(specControllerCount(s.refs) <= 1)
	for a := 0; a < len(s.refs); a++ {
		for b := a + 1; b < len(s.refs); b++ {
			verifrt.Assume(s.refs[a].UID != s.refs[b].UID)
		}
	}
	if strategyKind == vStrategyNative {
		var ors []metav1.OwnerReference
		for _, r := range s.refs {
			ors = append(ors, r.toOwnerReference())
		}
		s.existing.SetOwnerReferences(ors)
	} else {
		// the annotation strategy keeps owners in an annotation; build it through the strategy's own API
		for k := range s.refs {
			r := &s.refs[k]
			o := &unstructured.Unstructured{Object: map[string]interface{}{}}
			o.SetAPIVersion(r.APIVersion)
			o.SetKind(r.Kind)
			o.SetName(r.Name)
			o.SetUID(types.UID(r.UID))
			if r.isController() {
				if err := s.strategy.SetControllerReference(o, s.existing); err != nil {
					panic(err)
				}
			} else {
				r.HasCtrl, r.Ctrl = false, false
				if err := s.strategy.SetOwnerReference(o, s.existing); err != nil {
					panic(err)
				}
			}
		}
	}

	if ownershipOnly {
		s.cp = corev1alpha1.CollisionProtectionPrevent
		s.desired = vDesiredObject()
		return s
	}
	// revision annotation
	s.revKind = verifrt.IntRange("revAnnotation", 0, 3)
	ann := s.existing.GetAnnotations()
	if ann == nil {
		ann = map[string]string{}
	}
	switch s.revKind {
	case 1:
		ann[corev1alpha1.ObjectSetRevisionAnnotation] = ""
	case 2:
		ann[corev1alpha1.ObjectSetRevisionAnnotation] = "not-a-number"
	case 3:
		s.objRev = verifrt.Int64("objectRevision")
		ann[corev1alpha1.ObjectSetRevisionAnnotation] = strconv.FormatInt(s.objRev, 10)
	}
	if len(ann) > 0 {
		s.existing.SetAnnotations(ann)
	}

	// labels
	s.pkgLabel = verifrt.IntRange("packageLabel", 0, 2)
	switch s.pkgLabel {
	case 1:
		s.existing.SetLabels(map[string]string{manifestsv1alpha1.PackageLabel: "package-operator"})
	case 2:
		s.existing.SetLabels(map[string]string{manifestsv1alpha1.PackageLabel: "package-operator-remote-phase-manager"})
	}

	s.forced = verifrt.Bool("forceAdoptionEnv")
	if s.forced {
		verifrt.Setenv(constants.ForceAdoptionEnvironmentVariable, "1")
	} else {
		verifrt.Setenv(constants.ForceAdoptionEnvironmentVariable, "")
	}
	s.cp = corev1alpha1.CollisionProtection(verifrt.StringFrom("collisionProtection",
		string(corev1alpha1.CollisionProtectionPrevent), string(corev1alpha1.CollisionProtectionIfNoController),
		string(corev1alpha1.CollisionProtectionNone)))

	s.desired = vDesiredObject()
	return s
}

// vDesiredObject: the object as the phase lists it.
func vDesiredObject() *unstructured.Unstructured {
	d := &unstructured.Unstructured{Object: map[string]interface{}{}}
	d.SetAPIVersion("v1")
	d.SetKind("ConfigMap")
	d.SetName("obj")
	d.SetNamespace(vNS)
	d.SetLabels(map[string]string{"app": "x"})
	_ = unstructured.SetNestedField(d.Object, "v", "data", "k")
	return d
}

// --- reference predicates written from the property statement (they read the harness's own records) ---

func (s *vAdoptionScenario) specControlledByMe() bool { return specControlledBy(s.refs, s.me) }

func (s *vAdoptionScenario) specControlledByPrevious() bool {
	res := false
	for _, e := range s.prevEnts {
		res = verifrt.Or(res, specControlledBy(s.refs, e))
	}
	return res
}

func (s *vAdoptionScenario) specForced() bool { return s.forced || s.pkgLabel == 1 }

// specPermitted: the recorded revision is not higher than mine and (None/forced, or IfNoController without a
// controller, or controlled by a declared previous revision with a lower recorded revision).
func (s *vAdoptionScenario) specPermitted() bool {
	none := verifrt.Or(s.cp == corev1alpha1.CollisionProtectionNone, s.specForced())
	ifNoCtrl := verifrt.And(s.cp == corev1alpha1.CollisionProtectionIfNoController, verifrt.Not(specHasController(s.refs)))
	handover := verifrt.And(s.specControlledByPrevious(), s.objRev < s.myRev)
	return verifrt.And(s.objRev <= s.myRev, verifrt.Or(none, verifrt.Or(ifNoCtrl, handover)))
}

func isRealWriteOn(w vWrite, key client.ObjectKey) bool {
	return !w.DryRun && w.Key == key
}

type vPatchedMeta struct {
	controllers     int
	meIsController  bool
	revisionMatches bool
	owners          int
	ownerUIDs       []string
}

// vInspectApply decodes the body of an apply patch and reports who controls the object in it.
func (s *vAdoptionScenario) vInspectApply(w vWrite) vPatchedMeta {
	var body map[string]interface{}
	if err := json.Unmarshal(w.Data, &body); err != nil {
		panic(err)
	}
	u := &unstructured.Unstructured{Object: body}
	var res vPatchedMeta
	res.revisionMatches = u.GetAnnotations()[corev1alpha1.ObjectSetRevisionAnnotation] == strconv.FormatInt(s.myRev, 10)
	if s.strategyKind == vStrategyNative {
		for _, or := range u.GetOwnerReferences() {
			res.owners++
			res.ownerUIDs = append(res.ownerUIDs, string(or.UID))
			if or.Controller != nil && *or.Controller {
				res.controllers++
				if groupOf(or.APIVersion) == s.me.group() && or.Kind == s.me.Kind && or.Name == s.me.Name && string(or.UID) == s.me.UID {
					res.meIsController = true
				}
			}
		}
		return res
	}
	var owners []map[string]interface{}
	if err := json.Unmarshal([]byte(u.GetAnnotations()[constants.OwnerStrategyAnnotationKey]), &owners); err != nil {
		panic(err)
	}
	for _, o := range owners {
		res.owners++
		if c, ok := o["controller"].(bool); ok && c {
			res.controllers++
			av, _ := o["apiVersion"].(string)
			if groupOf(av) == s.me.group() && o["kind"] == s.me.Kind && o["name"] == s.me.Name && o["uid"] == s.me.UID {
				res.meIsController = true
			}
		}
	}
	return res
}

// VerifC01Adopt: collision protection decision and its effect, for one reconcile of one pre-existing object.
func VerifC01AdoptNative()     { verifC01Adopt(vStrategyNative) }
func VerifC01AdoptAnnotation() { verifC01Adopt(vStrategyAnnotation) }

func verifC01Adopt(strategyKind int) {
	s := vNewAdoptionScenario(strategyKind)
	w := &vWriter{}
	cache := &vCache{vReader: vReader{Objs: map[client.ObjectKey]*unstructured.Unstructured{}}}
	uncached := &vReader{Objs: map[client.ObjectKey]*unstructured.Unstructured{}}
	// the object exists; the cache may or may not have it yet
	if verifrt.Bool("inCache") {
		cache.Objs[s.key] = s.existing
	}
	uncached.Objs[s.key] = s.existing

	r := NewPhaseReconciler(vScheme(), w, cache, uncached, s.strategy, &vPreflight{})
	ctx := context.Background()
	desired := r.desiredObject(ctx, s.owner, corev1alpha1.ObjectSetObject{Object: *s.desired})
	// reconcilePhaseObject sets the controller reference on the desired object before calling reconcileObject
	if err := s.strategy.SetControllerReference(s.owner.ClientObject(), desired); err != nil {
		verifrt.Reach("owner-cannot-own")
		return
	}
	_, err := r.reconcileObject(ctx, s.owner, desired, s.prev, s.cp)

	var real []vWrite
	for _, x := range w.Writes {
		if isRealWriteOn(x, s.key) {
			real = append(real, x)
		}
	}
	noWrite := len(real) == 0

	if s.revKind == 2 {
		// unreadable recorded revision: "not higher than the ObjectSet's" cannot be established, so an object that is
		// not already controlled by this owner stays untouched
		verifrt.Assert(verifrt.Implies(verifrt.Not(s.specControlledByMe()), noWrite), "C01/unreadable-revision-untouched")
		verifrt.Reach("garbage-revision")
		return
	}
	byMe := s.specControlledByMe()
	permitted := s.specPermitted()
	newer := s.objRev > s.myRev

	// (1) not controlled by me and adoption not permitted => object untouched
	verifrt.Assert(verifrt.Implies(verifrt.And(verifrt.Not(byMe), verifrt.Not(permitted)), noWrite), "C01/refused-untouched")
	// (2) refusal is reported as CollisionDetected unless the object belongs to a newer revision
	refusedCase := verifrt.And(verifrt.Not(byMe), verifrt.And(verifrt.Not(permitted), verifrt.Not(newer)))
	reported := false
	if err != nil {
		conds := s.owner.GetConditions()
		*conds = nil
		_, _ = UpdateObjectSetOrPhaseStatusFromError(ctx, s.owner, err, func(context.Context) error { return nil })
		c := meta.FindStatusCondition(*conds, corev1alpha1.ObjectSetAvailable)
		reported = c != nil && c.Status == metav1.ConditionFalse && c.Reason == "CollisionDetected" &&
			c.ObservedGeneration == s.owner.ClientObject().GetGeneration()
	}
	verifrt.Assert(verifrt.Implies(refusedCase, reported), "C01/refusal-reported")
	// (3) conversely: a permitted adoption is carried out - exactly one apply patch that makes me the sole
	// controller and records my revision
	adopted := false
	if len(real) == 1 && real[0].Verb == "patch" && real[0].PatchType == types.ApplyPatchType && err == nil {
		m := s.vInspectApply(real[0])
		adopted = m.controllers == 1 && m.meIsController && m.revisionMatches && real[0].Force &&
			real[0].FieldMgr == constants.FieldOwner
	}
	verifrt.Assert(verifrt.Implies(verifrt.And(verifrt.Not(byMe), permitted), adopted), "C01/permitted-adopts")

	// vacuity witnesses
	if noWrite && err != nil {
		verifrt.Reach("refused")
	}
	if noWrite && err == nil {
		verifrt.Reach("left-alone")
	}
	if adopted {
		verifrt.Reach("adopted")
	}
}
