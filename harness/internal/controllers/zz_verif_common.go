//go:build verif

package controllers

import (
	"context"
	"encoding/json"
	"errors"

	apimachineryerrors "k8s.io/apimachinery/pkg/api/errors"
	metav1 "k8s.io/apimachinery/pkg/apis/meta/v1"
	"k8s.io/apimachinery/pkg/apis/meta/v1/unstructured"
	"k8s.io/apimachinery/pkg/runtime"
	"k8s.io/apimachinery/pkg/runtime/schema"
	"k8s.io/apimachinery/pkg/types"
	"pkg.package-operator.run/boxcutter/ownerhandling"
	"sigs.k8s.io/controller-runtime/pkg/client"

	corev1alpha1 "package-operator.run/apis/core/v1alpha1"
	"package-operator.run/internal/adapters"
	"package-operator.run/internal/constants"
	"package-operator.run/internal/preflight"
	"package-operator.run/internal/verifrt"
)

// ---------------------------------------------------------------------------------------------
// Recording doubles for the Kubernetes API (DESIGN §4.1).

type vWrite struct {
	Verb      string // create | update | patch | delete
	Key       client.ObjectKey
	GVK       schema.GroupVersionKind
	Obj       *unstructured.Unstructured // deep copy of the object passed
	PatchType types.PatchType
	Data      []byte
	DryRun    bool
	Force     bool
	FieldMgr  string
	PreUID    *types.UID
	PreRV     *string
}

type vWriter struct {
	Writes []vWrite
	// outcome of the k-th call: drawn by next()
	Outcome func(w *vWrite) error
	// Respond models the API server's answer to a successful write: it may update the object handed to the call
	// (the client decodes the response into it) and whatever stores the harness keeps.
	Respond func(obj client.Object, w *vWrite)
}

func asUnstructured(obj client.Object) *unstructured.Unstructured {
	if u, ok := obj.(*unstructured.Unstructured); ok {
		return u.DeepCopy()
	}
	m, err := runtime.DefaultUnstructuredConverter.ToUnstructured(obj)
	if err != nil {
		panic(err)
	}
	return &unstructured.Unstructured{Object: m}
}

func (w *vWriter) record(wr vWrite) error {
	w.Writes = append(w.Writes, wr)
	if w.Outcome != nil {
		return w.Outcome(&w.Writes[len(w.Writes)-1])
	}
	return nil
}

func (w *vWriter) Create(_ context.Context, obj client.Object, opts ...client.CreateOption) error {
	co := &client.CreateOptions{}
	co.ApplyOptions(opts)
	u := asUnstructured(obj)
	return w.record(vWrite{Verb: "create", Key: client.ObjectKeyFromObject(obj), GVK: u.GroupVersionKind(), Obj: u,
		DryRun: len(co.DryRun) > 0, FieldMgr: co.FieldManager})
}

func (w *vWriter) Update(_ context.Context, obj client.Object, opts ...client.UpdateOption) error {
	uo := &client.UpdateOptions{}
	uo.ApplyOptions(opts)
	u := asUnstructured(obj)
	return w.record(vWrite{Verb: "update", Key: client.ObjectKeyFromObject(obj), GVK: u.GroupVersionKind(), Obj: u,
		DryRun: len(uo.DryRun) > 0, FieldMgr: uo.FieldManager})
}

func (w *vWriter) Patch(_ context.Context, obj client.Object, patch client.Patch, opts ...client.PatchOption) error {
	po := &client.PatchOptions{}
	po.ApplyOptions(opts)
	u := asUnstructured(obj)
	data, err := patch.Data(obj)
	if err != nil {
		return err
	}
	err = w.record(vWrite{Verb: "patch", Key: client.ObjectKeyFromObject(obj), GVK: u.GroupVersionKind(), Obj: u,
		PatchType: patch.Type(), Data: data, DryRun: len(po.DryRun) > 0, Force: po.Force != nil && *po.Force, FieldMgr: po.FieldManager})
	if err == nil && w.Respond != nil {
		w.Respond(obj, &w.Writes[len(w.Writes)-1])
	}
	return err
}

func (w *vWriter) Delete(_ context.Context, obj client.Object, opts ...client.DeleteOption) error {
	do := &client.DeleteOptions{}
	do.ApplyOptions(opts)
	u := asUnstructured(obj)
	wr := vWrite{Verb: "delete", Key: client.ObjectKeyFromObject(obj), GVK: u.GroupVersionKind(), Obj: u, DryRun: len(do.DryRun) > 0}
	if do.Preconditions != nil {
		wr.PreUID = do.Preconditions.UID
		wr.PreRV = do.Preconditions.ResourceVersion
	}
	return w.record(wr)
}

func (w *vWriter) DeleteAllOf(context.Context, client.Object, ...client.DeleteAllOfOption) error {
	panic("DeleteAllOf is never used by the operator")
}

// realWrites returns the non-dry-run writes.
func (w *vWriter) realWrites() []vWrite {
	var out []vWrite
	for _, x := range w.Writes {
		if !x.DryRun {
			out = append(out, x)
		}
	}
	return out
}

// vReader answers Get from a table key -> (object | NotFound | error). List is not supported here.
type vReader struct {
	Objs  map[client.ObjectKey]*unstructured.Unstructured
	Err   map[client.ObjectKey]error
	Gets  []client.ObjectKey
	Watch []schema.GroupVersionKind
	WErr  error
}

func vNotFound(key client.ObjectKey) error {
	return apimachineryerrors.NewNotFound(schema.GroupResource{Group: "", Resource: "things"}, key.Name)
}

func (r *vReader) Get(_ context.Context, key client.ObjectKey, obj client.Object, _ ...client.GetOption) error {
	r.Gets = append(r.Gets, key)
	if e, ok := r.Err[key]; ok && e != nil {
		return e
	}
	o, ok := r.Objs[key]
	if !ok || o == nil {
		return vNotFound(key)
	}
	u, isU := obj.(*unstructured.Unstructured)
	if !isU {
		if err := runtime.DefaultUnstructuredConverter.FromUnstructured(o.DeepCopy().Object, obj); err != nil {
			panic(err)
		}
		return nil
	}
	u.Object = o.DeepCopy().Object
	return nil
}

func (r *vReader) List(context.Context, client.ObjectList, ...client.ListOption) error {
	panic("List not supported by vReader")
}

func (r *vReader) Watch_(gvk schema.GroupVersionKind) { r.Watch = append(r.Watch, gvk) }

// vCache is the dynamicCache double: a reader plus Watch.
type vCache struct {
	vReader
	// Strict: like the real dynamic cache, reading a kind that was not watched (in this process) fails
	Strict bool
}

var errNotWatched = errors.New("cache access before calling Watch, can not read objects")

func (c *vCache) Get(ctx context.Context, key client.ObjectKey, obj client.Object, opts ...client.GetOption) error {
	if c.Strict {
		kind := obj.GetObjectKind().GroupVersionKind()
		watched := false
		for _, w := range c.vReader.Watch {
			if w == kind {
				watched = true
			}
		}
		if !watched {
			return errNotWatched
		}
	}
	return c.vReader.Get(ctx, key, obj, opts...)
}

func (c *vCache) Watch(_ context.Context, _ client.Object, obj runtime.Object) error {
	c.vReader.Watch = append(c.vReader.Watch, obj.GetObjectKind().GroupVersionKind())
	return c.WErr
}

// vPreflight is a preflight checker double with a fixed answer.
type vPreflight struct {
	Violations []preflight.Violation
	Err        error
	Calls      int
}

func (p *vPreflight) Check(context.Context, client.Object, client.Object) ([]preflight.Violation, error) {
	p.Calls++
	return p.Violations, p.Err
}

var errOpaque = errors.New("opaque API error")

// ---------------------------------------------------------------------------------------------
// Scheme and strategies.

func vScheme() *runtime.Scheme {
	if verifrt.Symbolic() {
		// the executor answers GVK questions from its own table (DESIGN §2.3); the scheme is never inspected
		return &runtime.Scheme{}
	}
	s := runtime.NewScheme()
	if err := corev1alpha1.AddToScheme(s); err != nil {
		panic(err)
	}
	return s
}

const (
	vStrategyNative     = 0
	vStrategyAnnotation = 1
)

func vStrategy(kind int, scheme *runtime.Scheme) ownerStrategy {
	if kind == vStrategyAnnotation {
		return ownerhandling.NewAnnotation(scheme, constants.OwnerStrategyAnnotationKey)
	}
	return ownerhandling.NewNative(scheme)
}

// ---------------------------------------------------------------------------------------------
// Entities: the small universe of possible owners of a managed object.

type vEntity struct {
	APIVersion string
	Kind       string
	Name       string
	UID        string
}

func (e vEntity) group() string {
	gv, err := schema.ParseGroupVersion(e.APIVersion)
	if err != nil {
		return "<unparsable>"
	}
	return gv.Group
}

const pkoAPIVersion = "package-operator.run/v1alpha1"

// vRef is the harness's own record of an owner reference it placed on the pre-existing object.
type vRef struct {
	APIVersion string
	Kind       string
	Name       string
	UID        string
	HasCtrl    bool // controller field present
	Ctrl       bool // its value
}

func groupOf(apiVersion string) string {
	gv, err := schema.ParseGroupVersion(apiVersion)
	if err != nil {
		return "<unparsable>"
	}
	return gv.Group
}

// refersTo is the reference predicate "ref names entity" (group, kind, name, uid - version ignored).
func (r vRef) refersTo(e vEntity) bool {
	return verifrt.And(verifrt.And(groupOf(r.APIVersion) == e.group(), r.Kind == e.Kind),
		verifrt.And(r.Name == e.Name, r.UID == e.UID))
}

func (r vRef) isController() bool { return verifrt.And(r.HasCtrl, r.Ctrl) }

func (r vRef) toOwnerReference() metav1.OwnerReference {
	o := metav1.OwnerReference{APIVersion: r.APIVersion, Kind: r.Kind, Name: r.Name, UID: types.UID(r.UID)}
	if r.HasCtrl {
		c := r.Ctrl
		o.Controller = &c
	}
	return o
}

// specControlledBy: some reference names e and is the controller.
func specControlledBy(refs []vRef, e vEntity) bool {
	res := false
	for _, r := range refs {
		res = verifrt.Or(res, verifrt.And(r.refersTo(e), r.isController()))
	}
	return res
}

func specOwnedBy(refs []vRef, e vEntity) bool {
	res := false
	for _, r := range refs {
		res = verifrt.Or(res, r.refersTo(e))
	}
	return res
}

func specHasController(refs []vRef) bool {
	res := false
	for _, r := range refs {
		res = verifrt.Or(res, r.isController())
	}
	return res
}

func specControllerCount(refs []vRef) int {
	n := 0
	for _, r := range refs {
		if r.isController() {
			n++
		}
	}
	return n
}

// entityOf builds the entity record of a typed owner object.
func entityOf(kind string, obj client.Object) vEntity {
	return vEntity{APIVersion: pkoAPIVersion, Kind: kind, Name: obj.GetName(), UID: string(obj.GetUID())}
}

// vOwner builds the owner under reconcile. kind: 0 ObjectSet, 1 ClusterObjectSet.
func vObjectSetOwner(kind int, name, uid, ns string, rev int64, paused bool) (PhaseObjectOwner, vEntity) {
	if kind == 1 {
		a := &adapters.ClusterObjectSetAdapter{}
		a.Name, a.UID = name, types.UID(uid)
		a.Status.Revision = rev
		a.Generation = 7
		if paused {
			a.Spec.LifecycleState = corev1alpha1.ObjectSetLifecycleStatePaused
		}
		return a, entityOf("ClusterObjectSet", a.ClientObject())
	}
	a := &adapters.ObjectSetAdapter{}
	a.Name, a.UID, a.Namespace = name, types.UID(uid), ns
	a.Status.Revision = rev
	a.Generation = 7
	if paused {
		a.Spec.LifecycleState = corev1alpha1.ObjectSetLifecycleStatePaused
	}
	return a, entityOf("ObjectSet", a.ClientObject())
}

type vPrev struct {
	client.Object
	remotes []corev1alpha1.RemotePhaseReference
}

func (p *vPrev) ClientObject() client.Object                          { return p.Object }
func (p *vPrev) GetRemotePhases() []corev1alpha1.RemotePhaseReference { return p.remotes }

func mustJSON(v interface{}) []byte {
	b, err := json.Marshal(v)
	if err != nil {
		panic(err)
	}
	return b
}
