//go:build verif

package controllers

import (
	"context"
	"errors"

	"k8s.io/apimachinery/pkg/apis/meta/v1/unstructured"
	"k8s.io/apimachinery/pkg/types"
	"sigs.k8s.io/controller-runtime/pkg/client"

	corev1alpha1 "package-operator.run/apis/core/v1alpha1"
	"package-operator.run/internal/preflight"
	"package-operator.run/internal/verifrt"
)

type vProber struct {
	ok     map[string]bool
	asked  []string
	seenRV map[string]string // resourceVersion of the object each probe was shown
}

func (p *vProber) Probe(obj client.Object) (bool, []string) {
	p.asked = append(p.asked, obj.GetName())
	if p.seenRV != nil {
		p.seenRV[obj.GetName()] = obj.GetResourceVersion()
	}
	if p.ok[obj.GetName()] {
		return true, nil
	}
	return false, []string{"not ready"}
}

type vPreflightPerObject struct {
	bad   map[string]bool
	calls []string
	// number of real writes seen when each check ran
	w            *vWriter
	writesAtCall []int
}

func (p *vPreflightPerObject) Check(_ context.Context, _ client.Object, obj client.Object) ([]preflight.Violation, error) {
	p.calls = append(p.calls, obj.GetName())
	p.writesAtCall = append(p.writesAtCall, len(p.w.realWrites()))
	if p.bad[obj.GetName()] {
		return []preflight.Violation{{Position: obj.GetName(), Error: "rejected"}}, nil
	}
	return nil, nil
}

// VerifC03PhaseObjects: one phase with the real PhaseReconciler. C03: the phase result is clean iff every object is
// present and passes its probes. C11: no write before every object of the phase passed preflight. C09: a paused owner
// writes nothing but keeps probing.
func VerifC03PhaseObjects() {
	n := verifrt.IntRange("nObjects", 0, verifrt.Bound("maxObjects", 2))
	paused := verifrt.Bool("paused")
	owner, me := vObjectSetOwner(0, "me", "uid-me", vNS, 3, paused)
	w := &vWriter{}
	// a freshly started process: the dynamic cache has no watches yet and refuses reads of unwatched kinds
	cache := &vCache{vReader: vReader{Objs: map[client.ObjectKey]*unstructured.Unstructured{}}, Strict: true}
	uncached := &vReader{Objs: map[client.ObjectKey]*unstructured.Unstructured{}}
	prober := &vProber{ok: map[string]bool{}, seenRV: map[string]string{}}
	pf := &vPreflightPerObject{bad: map[string]bool{}, w: w}
	names := []string{"o0", "o1", "o2", "o3"}
	// the API server answers a write with the object as it is afterwards (new resourceVersion, possibly a new
	// generation and a status that no longer matches it): probes must be shown that state, not the snapshot read before
	w.Respond = func(obj client.Object, wr *vWrite) {
		if wr.DryRun {
			return
		}
		obj.SetResourceVersion("after-write")
		for _, store := range []map[client.ObjectKey]*unstructured.Unstructured{cache.Objs, uncached.Objs} {
			if e, ok := store[wr.Key]; ok {
				e.SetResourceVersion("after-write")
			}
		}
	}
	present := make([]bool, n)
	anyBad := false
	var phase corev1alpha1.ObjectSetTemplatePhase
	phase.Name = "p"
	for k := 0; k < n; k++ {
		d := vDesiredObject()
		d.SetName(names[k])
		phase.Objects = append(phase.Objects, corev1alpha1.ObjectSetObject{Object: *d})
		present[k] = verifrt.Bool(names[k] + ".present")
		if present[k] {
			e := d.DeepCopy()
			e.SetUID(types.UID("uid-" + names[k]))
			ref := vRef{APIVersion: me.APIVersion, Kind: me.Kind, Name: me.Name, UID: me.UID, HasCtrl: true, Ctrl: true}
			or := ref.toOwnerReference()
			e.SetOwnerReferences(append(e.GetOwnerReferences(), or))
			key := client.ObjectKey{Namespace: vNS, Name: names[k]}
			cache.Objs[key] = e
			uncached.Objs[key] = e
		}
		prober.ok[names[k]] = verifrt.Bool(names[k] + ".probeOK")
		pf.bad[names[k]] = verifrt.Bool(names[k] + ".preflightViolation")
		if pf.bad[names[k]] {
			anyBad = true
		}
	}
	r := NewPhaseReconciler(vScheme(), w, cache, uncached, vStrategy(vStrategyNative, vScheme()), pf)
	actual, res, err := r.ReconcilePhase(context.Background(), owner, phase, prober, nil)
	real := w.realWrites()

	// C11: every object of the phase is checked before the first write; any violation => nothing written
	verifrt.Assert(len(pf.calls) == n, "C11/every-object-preflighted")
	for _, k := range pf.writesAtCall {
		verifrt.Assert(k == 0, "C11/preflight-before-any-write")
	}
	if anyBad {
		var pe *preflight.Error
		verifrt.Assert(len(real) == 0, "C11/violation-blocks-all-writes")
		verifrt.Assert(errors.As(err, &pe), "C11/violation-reported-as-preflight-error")
		verifrt.Assert(len(prober.asked) == 0, "C11/no-probing-after-violation")
		verifrt.Reach("preflight-violation")
		return
	}
	verifrt.Assert(err == nil, "C03/no-error-in-nominal-pass")
	if paused {
		verifrt.Assert(len(real) == 0, "C09/paused-writes-nothing")
		verifrt.Reach("paused")
	}
	// C06: status.controllerOf is computed from the objects this pass returned (as objectSetPhasesReconciler does, with
	// the real GetControllerOf); every entry must be an object that was on the cluster in this pass
	strategy := vStrategy(vStrategyNative, vScheme())
	ctrlOf, cerr := GetControllerOf(context.Background(), vScheme(), strategy, owner.ClientObject(), actual)
	verifrt.Assert(cerr == nil, "C06/controllerOf-computable")
	for _, c := range ctrlOf {
		seen := false
		for k := 0; k < n; k++ {
			if names[k] == c.Name && (present[k] || !paused) {
				seen = true
			}
		}
		verifrt.Assert(seen, "C06/controllerOf-only-objects-seen-in-this-pass")
	}
	// C03: result clean iff every object present (or just created) and probe ok; paused + missing => failure, not probed
	wantClean := true
	wantAsked := 0
	for k := 0; k < n; k++ {
		found := present[k] || !paused
		if found {
			wantAsked++
		}
		if !found || !prober.ok[names[k]] {
			wantClean = false
		}
	}
	verifrt.Assert(res.IsZero() == wantClean, "C03/result-clean-iff-all-present-and-probed-ok")
	verifrt.Assert(len(prober.asked) == wantAsked, "C03/each-found-object-probed-once")
	verifrt.Assert(len(actual) == wantAsked, "C03/actual-objects-are-the-found-ones")
	if !wantClean {
		verifrt.Assert(res.PhaseName == "p", "C03/failing-phase-named")
		verifrt.Reach("probe-failure")
	} else {
		verifrt.Reach("clean")
	}
	if !paused {
		for k := 0; k < n; k++ {
			verifrt.Assert(prober.seenRV[names[k]] == "after-write", "C03/probes-see-the-object-as-written-in-this-pass")
		}
		// every object gets exactly one apply patch, in order
		verifrt.Assert(len(real) == n, "C10/one-apply-per-object")
		for k := 0; k < len(real) && k < n; k++ {
			verifrt.Assert(real[k].Verb == "patch" && real[k].Key.Name == names[k] && real[k].PatchType == types.ApplyPatchType, "C10/apply-in-order")
		}
	}
}
