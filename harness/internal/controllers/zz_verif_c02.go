//go:build verif

package controllers

import (
	"context"
	"encoding/json"
	"strconv"

	"k8s.io/apimachinery/pkg/apis/meta/v1/unstructured"
	"k8s.io/apimachinery/pkg/types"
	"sigs.k8s.io/controller-runtime/pkg/client"

	corev1alpha1 "package-operator.run/apis/core/v1alpha1"
	"package-operator.run/internal/constants"
	"package-operator.run/internal/verifrt"
)

// VerifC02Handover: every write of one reconcile keeps or raises the recorded revision, never touches an object of a
// newer revision, and a handover leaves exactly one controller (me) with former owners demoted.
func VerifC02HandoverNative()     { verifC02Handover(vStrategyNative) }
func VerifC02HandoverAnnotation() { verifC02Handover(vStrategyAnnotation) }

func verifC02Handover(strategyKind int) {
	s := vNewAdoptionScenario(strategyKind)
	verifrt.Assume(s.revKind != 2) // unparsable annotation: no recorded revision to compare with
	// the object's manifest in the ObjectSet may itself carry Package Operator's revision annotation (a manifest
	// exported from another cluster): what gets recorded is the writer's revision all the same
	variant := verifrt.IntRange("variant", 0, 2) // plain | manifest carries a revision annotation | legacy field manager
	if variant == 1 {
		s.desired.SetAnnotations(map[string]string{corev1alpha1.ObjectSetRevisionAnnotation: "1", "example.com/note": "user"})
	}
	byMe := s.specControlledByMe()
	// invariant established by every adopting/creating apply (checked in C01 "permitted-adopts"): the controller's
	// revision is the recorded revision
	verifrt.Assume(verifrt.Implies(byMe, s.objRev == s.myRev))
	// a recorded revision may also be a number no ObjectSet can ever reach (beyond int64): it is higher than the
	// ObjectSet's own whatever that is, so an object the ObjectSet does not control already stays untouched
	beyond := false
	if s.revKind == 3 {
		beyond = verifrt.Bool("recordedRevisionBeyondInt64")
	}
	if beyond {
		verifrt.Assume(verifrt.Not(byMe))
		ann := s.existing.GetAnnotations()
		ann[corev1alpha1.ObjectSetRevisionAnnotation] = "9223372036854775808"
		s.existing.SetAnnotations(ann)
	}

	w := &vWriter{}
	// the object may last have been written by an older release (client-side apply): its field managers are migrated
	// with a JSON patch before the apply; like every patch it is answered with the object as stored
	if variant == 2 {
		_ = unstructured.SetNestedSlice(s.existing.Object, []interface{}{map[string]interface{}{
			"manager": "package-operator-manager", "operation": "Update", "apiVersion": "v1",
			"fieldsType": "FieldsV1", "fieldsV1": map[string]interface{}{"f:data": map[string]interface{}{"f:k": map[string]interface{}{}}},
		}}, "metadata", "managedFields")
	}
	stored := s.existing.DeepCopy()
	w.Respond = func(obj client.Object, wr *vWrite) {
		if wr.PatchType == types.JSONPatchType && !wr.DryRun {
			obj.(*unstructured.Unstructured).Object = stored.DeepCopy().Object
		}
	}
	cache := &vCache{vReader: vReader{Objs: map[client.ObjectKey]*unstructured.Unstructured{}}}
	uncached := &vReader{Objs: map[client.ObjectKey]*unstructured.Unstructured{}}
	cache.Objs[s.key] = s.existing
	uncached.Objs[s.key] = s.existing
	r := NewPhaseReconciler(vScheme(), w, cache, uncached, s.strategy, &vPreflight{})
	ctx := context.Background()
	desired := r.desiredObject(ctx, s.owner, corev1alpha1.ObjectSetObject{Object: *s.desired})
	if err := s.strategy.SetControllerReference(s.owner.ClientObject(), desired); err != nil {
		return
	}
	_, _ = r.reconcileObject(ctx, s.owner, desired, s.prev, s.cp)

	var real []vWrite
	for _, x := range w.Writes {
		if isRealWriteOn(x, s.key) {
			real = append(real, x)
		}
	}
	// never touch an object that records a newer revision
	if beyond {
		verifrt.Assert(len(real) == 0, "C02/newer-revision-untouched")
		verifrt.Reach("untouched")
		return
	}
	verifrt.Assert(verifrt.Implies(s.objRev > s.myRev, len(real) == 0), "C02/newer-revision-untouched")
	for _, x := range real {
		if x.Verb != "patch" || x.PatchType != types.ApplyPatchType {
			verifrt.Assert(x.Verb == "patch", "C02/only-patches")
			continue
		}
		var body map[string]interface{}
		if err := json.Unmarshal(x.Data, &body); err != nil {
			panic(err)
		}
		u := &unstructured.Unstructured{Object: body}
		written := u.GetAnnotations()[corev1alpha1.ObjectSetRevisionAnnotation]
		// the written revision is mine, and mine is not lower than what was read
		verifrt.Assert(written == strconv.FormatInt(s.myRev, 10), "C02/written-revision-is-the-writers")
		verifrt.Assert(s.myRev >= s.objRev, "C02/recorded-revision-never-lowered")
		m := s.vInspectApply(x)
		verifrt.Assert(m.controllers == 1 && m.meIsController, "C02/exactly-one-controller-after-write")
		if strategyKind == vStrategyNative {
			// former owners stay listed (demoted), nobody is dropped. (controller-runtime's upsert replaces an entry with
			// the same group/kind/name as the new controller, whatever its uid: such an entry can only name a deleted
			// predecessor of the same name, so nothing is demanded for those.)
			for _, ref := range s.refs {
				sameName := verifrt.And(verifrt.And(groupOf(ref.APIVersion) == s.me.group(), ref.Kind == s.me.Kind), ref.Name == s.me.Name)
				if vConcreteBool(sameName) {
					continue
				}
				kept := false
				for _, uid := range m.ownerUIDs {
					if uid == vForkUID(ref.UID) {
						kept = true
					}
				}
				verifrt.Assert(kept, "C02/former-owners-kept-as-plain-owners")
			}
		}
		verifrt.Reach("written")
	}
	if len(real) == 0 {
		verifrt.Reach("untouched")
	}
}

// vForkUID concretises a symbolic uid.
func vForkUID(u string) string {
	for _, c := range []string{"uid-me", "uid-prev1", "uid-prev2", "uid-rp1", "uid-rp2", "uid-other"} {
		if u == c {
			return c
		}
	}
	return u
}

// vConcreteBool forks on a symbolic boolean and returns its value on this path.
func vConcreteBool(b bool) bool {
	if b {
		return true
	}
	return false
}

var _ = constants.FieldOwner
