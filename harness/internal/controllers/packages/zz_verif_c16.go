//go:build verif

package packages

import (
	"context"
	"encoding/json"

	"github.com/go-logr/logr"
	"k8s.io/apimachinery/pkg/api/meta"
	metav1 "k8s.io/apimachinery/pkg/apis/meta/v1"
	"k8s.io/apimachinery/pkg/runtime"
	"k8s.io/apimachinery/pkg/types"
	ctrl "sigs.k8s.io/controller-runtime"

	corev1alpha1 "package-operator.run/apis/core/v1alpha1"
	"package-operator.run/internal/adapters"
	"package-operator.run/internal/apis/manifests"
	"package-operator.run/internal/imageprefix"
	"package-operator.run/internal/packages"
	"package-operator.run/internal/verifk8s"
	"package-operator.run/internal/verifrt"
)

func vScheme() *runtime.Scheme {
	if verifrt.Symbolic() {
		return &runtime.Scheme{}
	}
	s := runtime.NewScheme()
	if err := corev1alpha1.AddToScheme(s); err != nil {
		panic(err)
	}
	return s
}

type vPuller struct {
	calls int
	err   error
}

func (p *vPuller) Pull(context.Context, string) (*packages.RawPackage, error) {
	p.calls++
	if p.err != nil {
		return nil, p.err
	}
	return &packages.RawPackage{}, nil
}

type vDeployer struct {
	calls      int
	err        error
	setInvalid bool
}

func (d *vDeployer) Deploy(_ context.Context, apiPkg adapters.GenericPackageAccessor, _ *packages.RawPackage, _ manifests.PackageEnvironment) error {
	d.calls++
	if d.setInvalid {
		meta.SetStatusCondition(apiPkg.GetConditions(), metav1.Condition{Type: corev1alpha1.PackageInvalid, Status: metav1.ConditionTrue, Reason: "LoadError"})
	}
	return d.err
}

type vEnvSink struct{}

func (vEnvSink) GetEnvironment(context.Context, string) (*manifests.PackageEnvironment, error) {
	return &manifests.PackageEnvironment{}, nil
}
func (vEnvSink) SetEnvironment(*manifests.PackageEnvironment) {}

func vCond(obj map[string]interface{}, typ string) (string, bool) {
	st, _ := obj["status"].(map[string]interface{})
	conds, _ := st["conditions"].([]interface{})
	for _, c := range conds {
		m, _ := c.(map[string]interface{})
		if m != nil && m["type"] == typ {
			s, _ := m["status"].(string)
			return s, true
		}
	}
	return "", false
}

// VerifC16C09Controller: one pass of the Package controller. Unchanged packages are neither pulled nor deployed; pull
// failures show as Unpacked=False in a persisted status; success records the unpacked hash; pausing a Package pauses
// its ObjectDeployment and skips unpacking.
func VerifC16C09Controller() {
	c := verifk8s.NewClient()
	pkg := &corev1alpha1.Package{}
	pkg.Name, pkg.Namespace, pkg.UID = "pkg", "ns", "uid-pkg"
	pkg.Generation = 6
	pkg.Spec.Image = verifrt.StringFrom("spec.image", "img:v1", "img:v2")
	paused := verifrt.Bool("spec.paused")
	pkg.Spec.Paused = paused
	// the hash recorded at the last successful unpack: of this very spec, of the other image, or none
	// (computed, as in production, on the object as it comes back from the API)
	ap := &adapters.GenericPackage{}
	verifk8s.FromMap(verifk8s.ToMap(pkg), &ap.Package)
	specHash := ap.GetSpecHash(nil)
	switch verifrt.IntRange("status.unpackedHash", 0, 2) {
	case 0:
		pkg.Status.UnpackedHash = specHash
	case 1:
		pkg.Status.UnpackedHash = "stale"
	}
	unchanged := pkg.Status.UnpackedHash == specHash
	c.Put(pkg)
	depExists := verifrt.Bool("objectDeployment.exists")
	depPaused := false
	if depExists {
		dep := &corev1alpha1.ObjectDeployment{}
		dep.Name, dep.Namespace = "pkg", "ns"
		depPaused = verifrt.Bool("objectDeployment.paused")
		dep.Spec.Paused = depPaused
		c.Put(dep)
	}
	puller := &vPuller{}
	if verifrt.Bool("pull.fails") {
		puller.err = verifk8s.ErrOpaque
	}
	deployer := &vDeployer{setInvalid: verifrt.Bool("deploy.marksInvalid")}
	if verifrt.Bool("deploy.fails") {
		deployer.err = verifk8s.ErrOpaque
	}
	ctl := newGenericPackageController(adapters.NewGenericPackage, adapters.NewObjectDeployment, c, verifk8s.NewClient(), logr.Discard(),
		vScheme(), puller, deployer, nil, nil, nil)
	ctl.unpackReconciler.environmentSink = vEnvSink{}
	_, err := ctl.Reconcile(context.Background(), ctrl.Request{NamespacedName: types.NamespacedName{Namespace: "ns", Name: "pkg"}})

	var statusUpdates []verifk8s.Call
	var depUpdates []verifk8s.Call
	for _, call := range c.Calls {
		switch {
		case call.Verb == "status-update":
			statusUpdates = append(statusUpdates, call)
		case call.Verb == "update" && call.Key.Kind == "ObjectDeployment":
			depUpdates = append(depUpdates, call)
		}
	}
	// C09: pause propagation to the ObjectDeployment, and hands off while paused
	if paused {
		verifrt.Assert(puller.calls == 0 && deployer.calls == 0, "C09/paused-package-is-not-unpacked")
		if depExists && !depPaused {
			ok := len(depUpdates) == 1
			if ok {
				spec, _ := depUpdates[0].Obj["spec"].(map[string]interface{})
				p, _ := spec["paused"].(bool)
				ok = p
			}
			verifrt.Assert(ok, "C09/pausing-package-pauses-deployment")
			verifrt.Reach("pause-propagated")
		}
		return
	}
	if depExists && depPaused {
		verifrt.Assert(len(depUpdates) == 1, "C09/unpausing-package-unpauses-deployment")
	}
	if unchanged {
		verifrt.Assert(puller.calls == 0 && deployer.calls == 0, "C16/unchanged-package-left-alone")
		verifrt.Reach("unchanged")
		return
	}
	verifrt.Assert(puller.calls == 1, "C16/changed-package-is-pulled")
	if puller.err != nil {
		verifrt.Assert(deployer.calls == 0, "C16/no-deploy-after-pull-failure")
		ok := len(statusUpdates) == 1 && err == nil
		if ok {
			st, has := vCond(statusUpdates[0].Obj, corev1alpha1.PackageUnpacked)
			ok = has && st == "False"
		}
		verifrt.Assert(ok, "C16/pull-failure-shown-as-unpacked-false")
		verifrt.Reach("pull-failure")
		return
	}
	verifrt.Assert(deployer.calls == 1, "C16/changed-package-is-deployed")
	if deployer.err != nil {
		verifrt.Assert(err != nil, "C16/deploy-error-requeues")
		verifrt.Reach("deploy-error")
		return
	}
	ok := len(statusUpdates) == 1 && err == nil
	if ok {
		st, _ := statusUpdates[0].Obj["status"].(map[string]interface{})
		ok = st["unpackedHash"] == specHash
		if deployer.setInvalid {
			s, has := vCond(statusUpdates[0].Obj, corev1alpha1.PackageInvalid)
			ok = ok && has && s == "True"
		}
	}
	verifrt.Assert(ok, "C16/success-records-hash-and-persists-conditions")
	verifrt.Reach("unpacked")
}

// VerifC16Respec: the unpacked-hash protocol over three passes, without any reference to how the hash is computed:
// after a successful unpack an unchanged spec is left alone, and an edit of image, component or config is always
// pulled and deployed again - with and without image prefix overrides and a hash modifier configured.
func VerifC16Respec() {
	c := verifk8s.NewClient()
	pkg := &corev1alpha1.Package{}
	pkg.Name, pkg.Namespace, pkg.UID = "pkg", "ns", "uid-pkg"
	pkg.Generation = 3
	pkg.Spec.Image = "img:v1"
	if verifrt.Bool("spec.component.set") {
		pkg.Spec.Component = "c1"
	}
	if verifrt.Bool("spec.config.set") {
		raw, _ := json.Marshal(map[string]interface{}{"a": "1"})
		pkg.Spec.Config = &runtime.RawExtension{Raw: raw}
	}
	// namespaced Package or its cluster-scoped twin (ClusterPackage adapter, ClusterObjectDeployment)
	cluster := verifrt.Bool("clusterScoped")
	key := verifk8s.KeyOf(pkg)
	reqNS := "ns"
	newPkg, newDep := adapters.NewGenericPackage, adapters.NewObjectDeployment
	if cluster {
		m := verifk8s.ToMap(pkg)
		delete(m["metadata"].(map[string]interface{}), "namespace")
		cp := &corev1alpha1.ClusterPackage{}
		verifk8s.FromMap(m, cp)
		c.Put(cp)
		key = verifk8s.KeyOf(cp)
		reqNS = ""
		newPkg, newDep = adapters.NewGenericClusterPackage, adapters.NewClusterObjectDeployment
	} else {
		c.Put(pkg)
	}
	var overrides []imageprefix.Override
	if verifrt.Bool("manager.imagePrefixOverrides") {
		overrides = []imageprefix.Override{{From: "quay.io/a", To: "mirror.local/a"}}
	}
	var modifier *int32
	if verifrt.Bool("manager.hashModifier") {
		m := verifrt.Int32("manager.hashModifier.value")
		modifier = &m
	}
	puller := &vPuller{}
	deployer := &vDeployer{}
	ctl := newGenericPackageController(newPkg, newDep, c, verifk8s.NewClient(), logr.Discard(),
		vScheme(), puller, deployer, nil, modifier, overrides)
	ctl.unpackReconciler.environmentSink = vEnvSink{}
	req := ctrl.Request{NamespacedName: types.NamespacedName{Namespace: reqNS, Name: "pkg"}}
	pass := func() error {
		n := len(c.Calls)
		_, err := ctl.Reconcile(context.Background(), req)
		// the API server persists status updates
		for _, call := range c.Calls[n:] {
			if call.Verb == "status-update" && call.Key == key {
				st := call.Obj["status"]
				c.Objs[key]["status"] = st
			}
		}
		return err
	}
	err := pass()
	verifrt.Assert(err == nil && puller.calls == 1 && deployer.calls == 1, "C16/first-pass-unpacks")
	err = pass()
	verifrt.Assert(err == nil && puller.calls == 1 && deployer.calls == 1, "C16/unchanged-package-left-alone")
	// a spec edit
	spec, _ := c.Objs[key]["spec"].(map[string]interface{})
	edit := verifrt.IntRange("edit", 0, 3) // none | image | component | config
	switch edit {
	case 1:
		spec["image"] = "img:v2"
	case 2:
		spec["component"] = "c2"
	case 3:
		spec["config"] = map[string]interface{}{"a": "2"}
	}
	err = pass()
	if edit == 0 {
		verifrt.Assert(err == nil && puller.calls == 1 && deployer.calls == 1, "C16/unchanged-package-left-alone")
		verifrt.Reach("respec-unchanged")
		return
	}
	verifrt.Assert(err == nil && puller.calls == 2, "C16/changed-package-is-pulled")
	verifrt.Assert(deployer.calls == 2, "C16/changed-package-is-deployed")
	err = pass()
	verifrt.Assert(err == nil && puller.calls == 2 && deployer.calls == 2, "C16/unchanged-package-left-alone")
	verifrt.Reach("respec-changed")
}

// VerifC16Wiring: the Package controllers as wired by their real constructors (namespaced and cluster-scoped): a
// paused (Cluster)Package pauses the ObjectDeployment of the matching kind and does not pull.
func VerifC16Wiring() {
	cluster := verifrt.Bool("clusterScoped")
	c := verifk8s.NewClient()
	puller := &vPuller{}
	var ctl *GenericPackageController
	ns, depKind := "ns", "ObjectDeployment"
	if cluster {
		ns, depKind = "", "ClusterObjectDeployment"
		ctl = NewClusterPackageController(c, verifk8s.NewClient(), logr.Discard(), vScheme(), puller, nil, nil, nil)
		p := &corev1alpha1.ClusterPackage{}
		p.Name, p.UID, p.Generation = "pkg", "uid-pkg", 3
		p.Spec.Image, p.Spec.Paused = "img:v1", true
		c.Put(p)
		d := &corev1alpha1.ClusterObjectDeployment{}
		d.Name = "pkg"
		c.Put(d)
	} else {
		ctl = NewPackageController(c, verifk8s.NewClient(), logr.Discard(), vScheme(), puller, nil, nil, nil)
		p := &corev1alpha1.Package{}
		p.Name, p.Namespace, p.UID, p.Generation = "pkg", "ns", "uid-pkg", 3
		p.Spec.Image, p.Spec.Paused = "img:v1", true
		c.Put(p)
		d := &corev1alpha1.ObjectDeployment{}
		d.Name, d.Namespace = "pkg", "ns"
		c.Put(d)
	}
	_, err := ctl.Reconcile(context.Background(), ctrl.Request{NamespacedName: types.NamespacedName{Namespace: ns, Name: "pkg"}})
	verifrt.Assert(err == nil, "C16/controller-pass-succeeds")
	pausedDeployment := 0
	for _, call := range c.Calls {
		if call.Verb == "update" {
			spec, _ := call.Obj["spec"].(map[string]interface{})
			p, _ := spec["paused"].(bool)
			verifrt.Assert(call.Key.Kind == depKind && call.Key.Name == "pkg" && p, "C09/pausing-package-pauses-deployment")
			pausedDeployment++
		}
	}
	verifrt.Assert(pausedDeployment == 1 && puller.calls == 0, "C09/paused-package-is-not-unpacked")
	verifrt.Reach("wired")
}
