//go:build verif

package objecttemplate

import (
	"context"
	"strconv"

	"k8s.io/apimachinery/pkg/apis/meta/v1/unstructured"
	"k8s.io/apimachinery/pkg/runtime"

	corev1alpha1 "package-operator.run/apis/core/v1alpha1"
	"package-operator.run/internal/adapters"
	"package-operator.run/internal/verifrt"
)

func vScheme() *runtime.Scheme {
	if verifrt.Symbolic() {
		return &runtime.Scheme{}
	}
	s := runtime.NewScheme()
	if err := corev1alpha1.AddToScheme(s); err != nil {
		panic(err)
	}
	return s
}

// vDrawField puts an arbitrary JSON value (absent / string / integer / nested map) under key.
func vDrawField(m map[string]interface{}, key, label string) {
	switch verifrt.IntRange(label, 0, 3) {
	case 1:
		m[key] = verifrt.StringFrom(label+".string", "True", "x")
	case 2:
		m[key] = verifrt.Int64(label + ".int")
	case 3:
		m[key] = map[string]interface{}{"nested": true}
	}
}

// VerifC19OwnedObjectStatus: copying status conditions of the templated object never panics, whatever shape the
// third-party status has.
func VerifC19OwnedObjectStatus() {
	ot := &adapters.GenericObjectTemplate{}
	ot.Name, ot.Namespace = "t", "ns"
	ot.Generation = verifrt.Int64("template.generation")
	obj := &unstructured.Unstructured{Object: map[string]interface{}{}}
	obj.SetAPIVersion("v1")
	obj.SetKind("Pod")
	obj.SetName("x")
	if verifrt.Bool("object.hasGeneration") {
		obj.SetGeneration(verifrt.Int64("object.generation"))
	}
	switch verifrt.IntRange("status.kind", 0, 2) {
	case 1:
		obj.Object["status"] = "broken"
	case 2:
		st := map[string]interface{}{}
		vDrawField(st, "observedGeneration", "status.observedGeneration")
		switch verifrt.IntRange("conditions.kind", 0, 2) {
		case 1:
			st["conditions"] = "broken"
		case 2:
			n := verifrt.IntRange("conditions.len", 0, verifrt.Bound("maxConditions", 1))
			list := []interface{}{}
			for k := 0; k < n; k++ {
				p := "cond" + strconv.Itoa(k)
				if !verifrt.Bool(p + ".isMap") {
					list = append(list, "broken")
					continue
				}
				c := map[string]interface{}{}
				for _, f := range []string{"type", "status", "reason", "message", "observedGeneration"} {
					vDrawField(c, f, p+"."+f)
				}
				list = append(list, c)
			}
			st["conditions"] = list
		}
		obj.Object["status"] = st
	}
	msg := verifrt.PanicMessage(func() {
		_ = updateStatusConditionsFromOwnedObject(context.Background(), ot, obj)
	})
	verifrt.Assert(msg == "", "C19/owned-object-status-never-panics")
	verifrt.Reach("done")
}

// VerifC19SourceItem: copying a source item never panics for any key / destination the API schema admits.
func VerifC19SourceItem() {
	item := corev1alpha1.ObjectTemplateSourceItem{
		Key:         verifrt.StringFrom("item.key", ".metadata.name", "metadata.name", "{.metadata.name}", "", "{", ".status.items[*].name"),
		Destination: verifrt.StringFrom("item.destination", ".a", "", ".", "a", ".a.b", "..", ".a."),
	}
	src := &unstructured.Unstructured{Object: map[string]interface{}{"status": map[string]interface{}{"items": []interface{}{}}}}
	src.SetName("source")
	cfg := map[string]interface{}{}
	if verifrt.Bool("config.prefilled") {
		cfg["a"] = "scalar"
	}
	msg := verifrt.PanicMessage(func() {
		_ = copySourceItem(item, src, cfg)
	})
	verifrt.Assert(msg == "", "C19/source-item-never-panics")
	verifrt.Reach("done")
}
