//go:build verif

package objecttemplate

import (
	"context"
	"encoding/json"
	"strconv"
	"time"

	"github.com/go-logr/logr"
	apimachineryerrors "k8s.io/apimachinery/pkg/api/errors"
	metav1 "k8s.io/apimachinery/pkg/apis/meta/v1"
	"k8s.io/apimachinery/pkg/apis/meta/v1/unstructured"
	"k8s.io/apimachinery/pkg/runtime/schema"
	"k8s.io/apimachinery/pkg/types"
	ctrl "sigs.k8s.io/controller-runtime"

	corev1alpha1 "package-operator.run/apis/core/v1alpha1"
	"package-operator.run/internal/adapters"
	"package-operator.run/internal/apis/manifests"
	"package-operator.run/internal/constants"
	"package-operator.run/internal/dynamiccache"
	"package-operator.run/internal/verifk8s"
	"package-operator.run/internal/verifrt"
)

type vSource struct {
	name     string
	optional bool
	ns       string // as listed
	scope    int
	inCache  bool
	inAPI    bool
	apiFails bool // the uncached fallback read of a source that exists fails with an error other than NotFound
}

func vCondition(obj map[string]interface{}, typ string) (status, reason string, found bool) {
	st, _ := obj["status"].(map[string]interface{})
	conds, _ := st["conditions"].([]interface{})
	for _, c := range conds {
		m, _ := c.(map[string]interface{})
		if m != nil && m["type"] == typ {
			s, _ := m["status"].(string)
			r, _ := m["reason"].(string)
			return s, r, true
		}
	}
	return "", "", false
}

func vStr(s string, universe ...string) string {
	for _, u := range universe {
		if s == u {
			return u
		}
	}
	return s
}

// VerifC18Template: one pass of the real ObjectTemplate controller (real preflight composition from its constructor).
func VerifC18Template() {
	c := verifk8s.NewClient()
	uncached := verifk8s.NewClient()
	cache := verifk8s.NewCache()
	mapper := &verifk8s.RESTMapper{Scope: map[string]int{}}
	ctl := newGenericObjectTemplateController(c, uncached, logr.Discard(), &vTemplateCache{Cache: cache}, vScheme(), mapper,
		adapters.NewGenericObjectTemplate, ControllerConfig{OptionalResourceRetryInterval: 11 * time.Second, ResourceRetryInterval: 13 * time.Second})
	ctl.SetEnvironment(&manifests.PackageEnvironment{})

	ot := &corev1alpha1.ObjectTemplate{}
	ot.Name, ot.Namespace, ot.UID = "t", "ns", "uid-t"
	ot.Generation = 2
	ot.ResourceVersion = "10"
	ot.Finalizers = []string{constants.CachedFinalizer}
	deleting := verifrt.Bool("deleting")
	if deleting {
		now := metav1.Now()
		ot.DeletionTimestamp = &now
	}
	// sources
	n := verifrt.IntRange("nSources", 0, verifrt.Bound("maxSources", 1))
	srcs := make([]*vSource, n)
	for k := 0; k < n; k++ {
		p := "source" + strconv.Itoa(k)
		s := &vSource{name: p}
		s.optional = verifrt.Bool(p + ".optional")
		if verifrt.Bound("slim", 0) == 1 {
			s.ns, s.scope = "", verifk8s.ScopeNamespaced // reduced variety so that longer source lists fit
		} else {
			s.ns = vStr(verifrt.StringFrom(p+".namespace", "", "ns", "other"), "", "ns", "other")
			s.scope = verifrt.IntRange(p+".scope", 0, 1)
		}
		kind := "SrcKind" + strconv.Itoa(k)
		mapper.Scope[kind] = s.scope
		s.inCache = verifrt.Bool(p + ".inCache")
		if !s.inCache {
			s.inAPI = verifrt.Bool(p + ".inAPI")
		}
		ot.Spec.Sources = append(ot.Spec.Sources, corev1alpha1.ObjectTemplateSource{APIVersion: "example.com/v1", Kind: kind, Namespace: s.ns, Name: p,
			Optional: s.optional, Items: []corev1alpha1.ObjectTemplateSourceItem{{Key: ".data.k", Destination: ".k" + strconv.Itoa(k)}}})
		effNS := s.ns
		if effNS == "" {
			effNS = "ns"
		}
		so := &unstructured.Unstructured{Object: map[string]interface{}{"data": map[string]interface{}{"k": "v"}}}
		so.SetAPIVersion("example.com/v1")
		so.SetKind(kind)
		so.SetName(p)
		so.SetNamespace(effNS)
		if s.inCache {
			cache.Put(so)
		}
		if s.inAPI {
			uncached.Put(so)
			s.apiFails = verifrt.Bool(p + ".apiReadFails")
			if s.apiFails {
				uncached.GetErr[verifk8s.Key{Kind: kind, Namespace: effNS, Name: p}] = verifk8s.ErrOpaque
			}
		}
		srcs[k] = s
	}
	// template: a plain JSON manifest (or an unparsable template)
	brokenTemplate := verifrt.Bool("template.unparsable")
	tNS, tScope, tPresetRef := "ns", verifk8s.ScopeNamespaced, false
	if verifrt.Bound("slim", 0) != 1 {
		tNS = vStr(verifrt.StringFrom("target.namespace", "", "ns", "other"), "", "ns", "other")
		tScope = verifrt.IntRange("target.scope", 0, 1)
		tPresetRef = verifrt.Bool("target.presetOwnerReference")
	}
	mapper.Scope["TargetKind"] = tScope
	target := map[string]interface{}{"apiVersion": "example.com/v1", "kind": "TargetKind", "metadata": map[string]interface{}{"name": "target"}}
	md := target["metadata"].(map[string]interface{})
	// what the template renders into the target: a label, an annotation and a payload field
	md["labels"] = map[string]interface{}{"tier": "rendered"}
	md["annotations"] = map[string]interface{}{"note": "rendered"}
	target["spec"] = map[string]interface{}{"value": "rendered"}
	if tNS != "" {
		md["namespace"] = tNS
	}
	if tPresetRef {
		md["ownerReferences"] = []interface{}{map[string]interface{}{"apiVersion": "v1", "kind": "ConfigMap", "name": "x", "uid": "u"}}
	}
	tb, _ := json.Marshal(target)
	ot.Spec.Template = string(tb)
	if brokenTemplate {
		ot.Spec.Template = "{{ broken"
	}
	targetExists := verifrt.Bool("target.exists")
	if targetExists {
		e := &unstructured.Unstructured{Object: map[string]interface{}{}}
		e.SetAPIVersion("example.com/v1")
		e.SetKind("TargetKind")
		e.SetName("target")
		e.SetNamespace("ns")
		e.SetResourceVersion("44")
		// an earlier render (of other source values) plus a third party's own label and annotation
		e.SetLabels(map[string]string{"tier": "rendered-earlier", "foreign": "keep"})
		e.SetAnnotations(map[string]string{"note": "rendered-earlier", "foreign": "keep"})
		e.Object["spec"] = map[string]interface{}{"value": "rendered-earlier"}
		cache.Put(e)
	}
	c.Put(ot)
	// A3: the API server refuses an object of a cluster-scoped kind that carries metadata.namespace
	rejectedByServer := 0
	c.Outcome = func(call *verifk8s.Call) error {
		if call.Key.Name == "target" && tScope == verifk8s.ScopeCluster && call.Key.Namespace != "" {
			rejectedByServer++
			return &apimachineryerrors.StatusError{ErrStatus: metav1.Status{Status: metav1.StatusFailure, Reason: metav1.StatusReasonBadRequest,
				Message: "the namespace of the provided object does not match the namespace sent on the request"}}
		}
		return nil
	}

	res, err := ctl.Reconcile(context.Background(), ctrl.Request{NamespacedName: types.NamespacedName{Namespace: "ns", Name: "t"}})

	var targetWrites, statusUpdates, finalizerPatches []verifk8s.Call
	freeIdx, patchIdx := -1, -1
	for k, call := range append(append([]verifk8s.Call{}, c.Calls...), cache.Calls...) {
		_ = k
		if call.Verb == "free" {
			freeIdx = 1
		}
	}
	for k, call := range c.Calls {
		switch {
		case call.Key.Name == "target" && call.IsRealWrite():
			if tScope == verifk8s.ScopeCluster && call.Key.Namespace != "" {
				continue // refused by the server (A3): nothing is written
			}
			targetWrites = append(targetWrites, call)
		case call.Verb == "status-update":
			statusUpdates = append(statusUpdates, call)
		case call.Verb == "patch" && call.Key.Name == "t":
			finalizerPatches = append(finalizerPatches, call)
			patchIdx = k
		}
	}
	_ = patchIdx
	if deleting {
		// deleting the ObjectTemplate releases its watches, then the finalizer
		verifrt.Assert(len(cache.Freed) == 1 && freeIdx == 1, "C18/deletion-releases-watches")
		verifrt.Assert(len(targetWrites) == 0, "C18/no-target-write-while-deleting")
		verifrt.Assert(len(finalizerPatches) == 1, "C18/finalizer-removed-after-free")
		verifrt.Reach("deleted")
		return
	}
	// reference
	outside := false
	requiredMissing := false
	optionalMissing := false
	readFailed := false
	for _, s := range srcs {
		if outside || requiredMissing || readFailed {
			break // the pass stops at the first offending source
		}
		if s.ns == "other" || s.scope == verifk8s.ScopeCluster {
			outside = true
			continue
		}
		if s.apiFails {
			readFailed = true
			continue
		}
		if !s.inCache && !s.inAPI {
			if s.optional {
				optionalMissing = true
			} else {
				requiredMissing = true
			}
		}
	}
	if readFailed {
		// a source that could not be read is not a missing source, optional or not: its values are unknown, so the
		// target is not rendered without them; the pass fails and is retried
		verifrt.Assert(err != nil && len(targetWrites) == 0, "C18/unreadable-source-fails-the-pass-and-writes-nothing")
		verifrt.Reach("source-read-error")
		return
	}
	sourcesOK := !outside && !requiredMissing
	targetOutside := tNS == "other" || tScope == verifk8s.ScopeCluster
	targetOK := !brokenTemplate && !targetOutside && !tPresetRef
	shouldWrite := sourcesOK && targetOK

	verifrt.Assert(!(len(targetWrites) > 0) || shouldWrite, "C18/target-written-only-when-sources-and-target-are-admissible")
	verifrt.Assert(!shouldWrite || len(targetWrites) == 1, "C18/admissible-template-is-applied")
	if len(targetWrites) == 1 {
		w := targetWrites[0]
		labels, _ := w.U().GetLabels()[constants.DynamicCacheLabel]
		verifrt.Assert(w.Key.Namespace == "ns" && labels == "True", "C18/target-forced-into-namespace-and-labelled")
		spec, _ := w.U().Object["spec"].(map[string]interface{})
		verifrt.Assert(spec["value"] == "rendered" && w.U().GetLabels()["tier"] == "rendered" && w.U().GetAnnotations()["note"] == "rendered",
			"C18/target-equals-the-current-render")
		if targetExists {
			verifrt.Assert(w.U().GetLabels()["foreign"] == "keep" && w.U().GetAnnotations()["foreign"] == "keep", "C18/foreign-labels-and-annotations-kept")
			verifrt.Assert(w.Verb == "update" && w.U().GetResourceVersion() == "44", "C18/existing-target-updated-with-its-resourceVersion")
		} else {
			verifrt.Assert(w.Verb == "create", "C18/missing-target-created")
			ors := w.U().GetOwnerReferences()
			verifrt.Assert(len(ors) == 1 && ors[0].UID == "uid-t" && ors[0].Controller != nil && *ors[0].Controller, "C18/target-controlled-by-template")
		}
		verifrt.Reach("applied")
	}
	if !shouldWrite {
		// reported through the Invalid condition of a persisted status
		ok := len(statusUpdates) == 1 && err == nil
		if ok {
			st, reason, found := vCondition(statusUpdates[0].Obj, corev1alpha1.ObjectTemplateInvalid)
			ok = found && st == "True"
			if brokenTemplate && sourcesOK {
				ok = ok && reason == "TemplateError"
			} else {
				ok = ok && reason == "SourceError"
			}
		}
		verifrt.Assert(ok, "C18/problem-reported-in-invalid-condition")
		verifrt.Reach("invalid")
	}
	// every source up to the first offending one was looked at (watched): a later source is never skipped because of
	// an earlier optional one that is missing
	if sourcesOK {
		for k := range srcs {
			watched := false
			for _, w := range cache.Watched {
				if w == "SrcKind"+strconv.Itoa(k) {
					watched = true
				}
			}
			verifrt.Assert(watched, "C18/every-source-is-watched")
		}
	}
	if requiredMissing && !outside {
		verifrt.Assert(res.RequeueAfter == 13*time.Second, "C18/missing-required-source-retried")
		verifrt.Reach("required-missing")
	}
	if optionalMissing && shouldWrite {
		verifrt.Assert(res.RequeueAfter == 11*time.Second, "C18/missing-optional-source-retried")
		verifrt.Reach("optional-missing")
	}
	// namespace boundary (C11): nothing is written outside the template's namespace
	for _, call := range c.Calls {
		if !call.IsRealWrite() || call.Key.Name == "t" {
			continue
		}
		if call.Key.Name == "target" && tScope == verifk8s.ScopeCluster {
			continue // refused by the server (A3)
		}
		verifrt.Assert(call.Key.Namespace == "ns", "C11/objecttemplate-stays-in-namespace")
		// merge patches and reads of cluster-scoped kinds ignore the namespace: such kinds must never be touched
		verifrt.Assert(mapper.Scope[call.Key.Kind] == verifk8s.ScopeNamespaced, "C11/objecttemplate-never-modifies-cluster-scoped-objects")
	}
}

// vTemplateCache adds OwnersForGKV to the cache double (event wiring only; not used by a reconcile pass).
type vTemplateCache struct{ *verifk8s.Cache }

func (c *vTemplateCache) OwnersForGKV(schema.GroupVersionKind) []dynamiccache.OwnerReference {
	return nil
}

// VerifC18ClusterTemplate: a ClusterObjectTemplate is not confined to a namespace: its sources are read where they say
// they are (a namespaced source names its namespace, a cluster-scoped one has none) and the target is written where the
// template puts it. The target is written iff every required source exists; a missing required source is reported.
func VerifC18ClusterTemplate() {
	c := verifk8s.NewClient()
	uncached := verifk8s.NewClient()
	cache := verifk8s.NewCache()
	mapper := &verifk8s.RESTMapper{Scope: map[string]int{}}
	ctl := newGenericObjectTemplateController(c, uncached, logr.Discard(), &vTemplateCache{Cache: cache}, vScheme(), mapper,
		adapters.NewGenericClusterObjectTemplate, ControllerConfig{OptionalResourceRetryInterval: 11 * time.Second, ResourceRetryInterval: 13 * time.Second})
	ctl.SetEnvironment(&manifests.PackageEnvironment{})
	ot := &corev1alpha1.ClusterObjectTemplate{}
	ot.Name, ot.UID = "t", "uid-t"
	ot.Generation = 2
	ot.Finalizers = []string{constants.CachedFinalizer}
	n := verifrt.IntRange("nSources", 1, verifrt.Bound("maxSources", 2))
	allRequiredFound := true
	for k := 0; k < n; k++ {
		p := "source" + strconv.Itoa(k)
		kind := "SrcKind" + strconv.Itoa(k)
		optional := verifrt.Bool(p + ".optional")
		ns := "src-ns"
		mapper.Scope[kind] = verifk8s.ScopeNamespaced
		if verifrt.Bool(p + ".clusterScoped") {
			ns = ""
			mapper.Scope[kind] = verifk8s.ScopeCluster
		}
		ot.Spec.Sources = append(ot.Spec.Sources, corev1alpha1.ObjectTemplateSource{APIVersion: "example.com/v1", Kind: kind, Namespace: ns, Name: p,
			Optional: optional, Items: []corev1alpha1.ObjectTemplateSourceItem{{Key: ".data.k", Destination: ".k" + strconv.Itoa(k)}}})
		so := &unstructured.Unstructured{Object: map[string]interface{}{"data": map[string]interface{}{"k": "v"}}}
		so.SetAPIVersion("example.com/v1")
		so.SetKind(kind)
		so.SetName(p)
		so.SetNamespace(ns)
		switch verifrt.IntRange(p+".where", 0, 2) { // cache | API only | nowhere
		case 0:
			cache.Put(so)
		case 1:
			uncached.Put(so)
		case 2:
			if !optional {
				allRequiredFound = false
			}
		}
	}
	tNS := "target-ns"
	mapper.Scope["TargetKind"] = verifk8s.ScopeNamespaced
	if verifrt.Bool("target.clusterScoped") {
		tNS = ""
		mapper.Scope["TargetKind"] = verifk8s.ScopeCluster
	}
	target := map[string]interface{}{"apiVersion": "example.com/v1", "kind": "TargetKind", "metadata": map[string]interface{}{"name": "target"}}
	if tNS != "" {
		target["metadata"].(map[string]interface{})["namespace"] = tNS
	}
	tb, _ := json.Marshal(target)
	ot.Spec.Template = string(tb)
	c.Put(ot)
	_, err := ctl.Reconcile(context.Background(), ctrl.Request{NamespacedName: types.NamespacedName{Name: "t"}})
	var targetWrites, statusUpdates []verifk8s.Call
	for _, call := range c.Calls {
		switch {
		case call.Key.Name == "target" && call.IsRealWrite():
			targetWrites = append(targetWrites, call)
		case call.Verb == "status-update":
			statusUpdates = append(statusUpdates, call)
		}
	}
	verifrt.Assert((len(targetWrites) == 1) == allRequiredFound && len(targetWrites) <= 1, "C18/cluster-template-target-written-iff-required-sources-exist")
	if allRequiredFound {
		verifrt.Assert(err == nil && targetWrites[0].Key.Namespace == tNS, "C18/cluster-template-target-written-where-the-template-says")
		verifrt.Reach("cluster-applied")
	} else {
		ok := len(statusUpdates) == 1
		if ok {
			st, reason, found := vCondition(statusUpdates[0].Obj, corev1alpha1.ObjectTemplateInvalid)
			ok = found && st == "True" && reason == "SourceError"
		}
		verifrt.Assert(ok, "C18/problem-reported-in-invalid-condition")
		verifrt.Reach("cluster-invalid")
	}
}
