//go:build verif

package controllers

import (
	"context"
	"encoding/json"

	apimachineryerrors "k8s.io/apimachinery/pkg/api/errors"
	metav1 "k8s.io/apimachinery/pkg/apis/meta/v1"
	"k8s.io/apimachinery/pkg/apis/meta/v1/unstructured"
	"k8s.io/apimachinery/pkg/runtime/schema"
	"k8s.io/apimachinery/pkg/types"
	"sigs.k8s.io/controller-runtime/pkg/client"

	corev1alpha1 "package-operator.run/apis/core/v1alpha1"
	"package-operator.run/internal/constants"
	"package-operator.run/internal/preflight"
	"package-operator.run/internal/verifrt"
)

func vConflict() error {
	return apimachineryerrors.NewConflict(schema.GroupResource{Resource: "things"}, "obj", errOpaque)
}

// VerifC05Teardown: one teardown step of one object: deletes only what the owner controls, pinned to the inspected
// UID and resourceVersion; co-owned objects only lose the owner reference; foreign objects are untouched.
func VerifC05TeardownNative()     { verifC05Teardown(vStrategyNative) }
func VerifC05TeardownAnnotation() { verifC05Teardown(vStrategyAnnotation) }

func verifC05Teardown(strategyKind int) {
	s := vNewScenario(strategyKind, true)
	// UID and resourceVersion of the inspected object come from small universes
	uid := verifrt.StringFrom("object.uid", "uid-a", "uid-b")
	rv := verifrt.StringFrom("object.resourceVersion", "41", "42")
	s.existing.SetUID(types.UID(uid))
	s.existing.SetResourceVersion(rv)
	// the object may already be terminating (deletion requested earlier, a foreign finalizer holds it)
	terminating := verifrt.Bool("object.terminating")
	if terminating {
		now := metav1.Now()
		s.existing.SetDeletionTimestamp(&now)
		s.existing.SetFinalizers([]string{"example.com/hold"})
	}

	w := &vWriter{}
	delOutcome := verifrt.IntRange("deleteOutcome", 0, 2) // nil | NotFound | Conflict
	w.Outcome = func(x *vWrite) error {
		if x.Verb == "delete" {
			switch delOutcome {
			case 1:
				return vNotFound(x.Key)
			case 2:
				return vConflict()
			}
		}
		return nil
	}
	cache := &vCache{vReader: vReader{Objs: map[client.ObjectKey]*unstructured.Unstructured{}}}
	uncached := &vReader{Objs: map[client.ObjectKey]*unstructured.Unstructured{}, Err: map[client.ObjectKey]error{}}
	getOutcome := verifrt.IntRange("getOutcome", 0, 2) // object | NotFound | opaque error
	switch getOutcome {
	case 0:
		uncached.Objs[s.key] = s.existing
	case 2:
		uncached.Err[s.key] = errOpaque
	}
	pf := &vPreflight{}
	pfOutcome := verifrt.IntRange("preflight", 0, 2) // ok | violation | error
	switch pfOutcome {
	case 1:
		pf.Violations = []preflight.Violation{{Position: "x", Error: "violation"}}
	case 2:
		pf.Err = errOpaque
	}
	if verifrt.Bool("watchFails") {
		cache.WErr = errOpaque
	}

	r := NewPhaseReconciler(vScheme(), w, cache, uncached, s.strategy, pf)
	ctx := context.Background()
	done, err := r.teardownPhaseObject(ctx, s.owner, corev1alpha1.ObjectSetObject{Object: *s.desired})

	var real []vWrite
	for _, x := range w.Writes {
		if !x.DryRun {
			real = append(real, x)
		}
	}
	inspected := getOutcome == 0 && pfOutcome == 0 && cache.WErr == nil
	byMe := s.specControlledByMe()
	ownedByMe := specOwnedBy(s.refs, s.me)

	deletes, patches, others := 0, 0, 0
	pinned := true
	var patch vWrite
	for _, x := range real {
		switch x.Verb {
		case "delete":
			deletes++
			if x.Key != s.key || x.PreUID == nil || x.PreRV == nil || string(*x.PreUID) != uid || *x.PreRV != rv {
				pinned = false
			}
		case "patch":
			patches++
			patch = x
		default:
			others++
		}
	}
	verifrt.Assert(others == 0, "C05/no-create-or-update-in-teardown")
	// a delete is issued only for an object that was inspected in this pass and found controlled by the owner
	verifrt.Assert(verifrt.Implies(deletes > 0, verifrt.And(inspected, byMe)), "C05/delete-only-controlled")
	verifrt.Assert(deletes <= 1, "C05/at-most-one-delete")
	verifrt.Assert(verifrt.Implies(deletes > 0, pinned), "C05/delete-pinned-to-uid-and-resourceVersion")
	// conversely, a controlled object that was inspected is deleted (teardown makes progress)
	// (an object that is already terminating need not be deleted again; it just is not "done" yet)
	verifrt.Assert(verifrt.Implies(verifrt.And(inspected && !terminating, byMe), deletes == 1), "C05/controlled-is-deleted")
	// co-owned: only a merge patch removing my reference and the cache label
	coOwned := verifrt.And(inspected, verifrt.And(ownedByMe, verifrt.Not(byMe)))
	patchOK := false
	if patches == 1 && deletes == 0 && patch.PatchType == types.MergePatchType && patch.Key == s.key {
		patchOK = s.vCheckOwnerRemovalPatch(patch)
	}
	verifrt.Assert(verifrt.Implies(coOwned, patchOK), "C05/co-owned-only-loses-reference")
	// not an owner at all (or nothing inspected): untouched
	verifrt.Assert(verifrt.Implies(verifrt.Or(!inspected, verifrt.Not(ownedByMe)), len(real) == 0), "C05/foreign-untouched")
	// the "done" answer: never true after issuing a delete that succeeded or failed other than NotFound
	verifrt.Assert(verifrt.Implies(verifrt.And(deletes > 0, delOutcome != 1), !done), "C04/not-done-while-delete-pending")
	verifrt.Assert(verifrt.Implies(err != nil, !done), "C04/error-not-done")
	// a controlled object that was found present is cleaned up only once a delete is answered NotFound
	verifrt.Assert(verifrt.Implies(verifrt.And(inspected, byMe), !done || (deletes > 0 && delOutcome == 1)), "C04/done-only-when-controlled-object-is-gone")

	if deletes == 1 {
		verifrt.Reach("deleted")
	}
	if patchOK {
		verifrt.Reach("reference-removed")
	}
	if inspected && len(real) == 0 && done {
		verifrt.Reach("foreign-left-alone")
	}
}

// vCheckOwnerRemovalPatch: body touches only metadata.labels[cache]=null and metadata.ownerReferences = refs minus me.
func (s *vAdoptionScenario) vCheckOwnerRemovalPatch(p vWrite) bool {
	var body map[string]interface{}
	if err := json.Unmarshal(p.Data, &body); err != nil {
		return false
	}
	if len(body) != 1 {
		return false
	}
	md, ok := body["metadata"].(map[string]interface{})
	if !ok || len(md) != 2 {
		return false
	}
	labels, ok := md["labels"].(map[string]interface{})
	if !ok || len(labels) != 1 {
		return false
	}
	if v, present := labels[constants.DynamicCacheLabel]; !present || v != nil {
		return false
	}
	if s.strategyKind != vStrategyNative {
		_, has := md["ownerReferences"]
		return has
	}
	var remaining []interface{}
	if md["ownerReferences"] != nil {
		remaining, ok = md["ownerReferences"].([]interface{})
		if !ok {
			return false
		}
	}
	// every remaining reference is one of the original ones and is not me; none of the others is lost
	if len(remaining) != len(s.refs)-1 {
		return false
	}
	for _, it := range remaining {
		m, ok := it.(map[string]interface{})
		if !ok {
			return false
		}
		found := false
		for _, r := range s.refs {
			if m["uid"] == r.UID && m["name"] == r.Name && m["kind"] == r.Kind {
				found = true
			}
		}
		isMe := m["uid"] == s.me.UID && m["name"] == s.me.Name && m["kind"] == s.me.Kind
		if !found || isMe {
			return false
		}
	}
	return true
}

// VerifC04TeardownPhase: a phase is reported cleaned up only if every one of its objects was.
func VerifC04TeardownPhase() {
	n := verifrt.IntRange("nObjects", 0, verifrt.Bound("maxObjects", 2))
	uncached := &vReader{Objs: map[client.ObjectKey]*unstructured.Unstructured{}, Err: map[client.ObjectKey]error{}}
	cache := &vCache{vReader: vReader{Objs: map[client.ObjectKey]*unstructured.Unstructured{}}}
	w := &vWriter{}
	owner, me := vObjectSetOwner(0, "me", "uid-me", vNS, 3, false)
	var phase corev1alpha1.ObjectSetTemplatePhase
	phase.Name = "p"
	gone := make([]bool, n)
	mine := make([]bool, n)
	delNotFound := make([]bool, n)
	names := []string{"o0", "o1", "o2", "o3"}
	for k := 0; k < n; k++ {
		d := &unstructured.Unstructured{Object: map[string]interface{}{}}
		d.SetAPIVersion("v1")
		d.SetKind("ConfigMap")
		d.SetName(names[k])
		d.SetNamespace(vNS)
		phase.Objects = append(phase.Objects, corev1alpha1.ObjectSetObject{Object: *d})
		state := verifrt.IntRange(names[k]+".state", 0, 2) // gone | controlled by me | foreign
		key := client.ObjectKey{Namespace: vNS, Name: names[k]}
		switch state {
		case 0:
			gone[k] = true
		case 1:
			mine[k] = true
			e := d.DeepCopy()
			e.SetUID(types.UID("uid-" + names[k]))
			e.SetResourceVersion("7")
			e.SetOwnerReferences(nil)
			ref := vRef{APIVersion: me.APIVersion, Kind: me.Kind, Name: me.Name, UID: me.UID, HasCtrl: true, Ctrl: true}
			or := ref.toOwnerReference()
			e.SetOwnerReferences(append(e.GetOwnerReferences(), or))
			uncached.Objs[key] = e
			delNotFound[k] = verifrt.Bool(names[k] + ".deleteSaysNotFound")
		case 2:
			e := d.DeepCopy()
			e.SetUID(types.UID("uid-" + names[k]))
			uncached.Objs[key] = e
		}
	}
	w.Outcome = func(x *vWrite) error {
		if x.Verb == "delete" {
			for k := 0; k < n; k++ {
				if x.Key.Name == names[k] && delNotFound[k] {
					return vNotFound(x.Key)
				}
			}
		}
		return nil
	}
	r := NewPhaseReconciler(vScheme(), w, cache, uncached, vStrategy(vStrategyNative, vScheme()), &vPreflight{})
	done, err := r.TeardownPhase(context.Background(), owner, phase)
	allGone := true
	for k := 0; k < n; k++ {
		if mine[k] && !delNotFound[k] {
			allGone = false
		}
	}
	verifrt.Assert(err == nil, "C04/teardown-phase-no-error")
	verifrt.Assert(done == allGone, "C04/phase-done-iff-every-object-gone-or-foreign")
	// every object still controlled gets its delete in this pass (no early exit that would starve later objects)
	dels := 0
	for _, x := range w.Writes {
		if x.Verb == "delete" {
			dels++
		}
	}
	want := 0
	for k := 0; k < n; k++ {
		if mine[k] {
			want++
		}
	}
	verifrt.Assert(dels == want, "C04/every-controlled-object-deleted")
	if done {
		verifrt.Reach("phase-done")
	} else {
		verifrt.Reach("phase-pending")
	}
}
