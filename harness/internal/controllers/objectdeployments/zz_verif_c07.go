//go:build verif

package objectdeployments

import (
	"context"
	"strconv"

	"k8s.io/apimachinery/pkg/api/equality"
	apimachineryerrors "k8s.io/apimachinery/pkg/api/errors"
	metav1 "k8s.io/apimachinery/pkg/apis/meta/v1"
	ctrl "sigs.k8s.io/controller-runtime"

	corev1alpha1 "package-operator.run/apis/core/v1alpha1"
	"package-operator.run/internal/adapters"
	"package-operator.run/internal/verifk8s"
	"package-operator.run/internal/verifrt"
)

type vSubReconciler struct{ calls int }

func (s *vSubReconciler) Reconcile(context.Context, adapters.ObjectSetAccessor, []adapters.ObjectSetAccessor, adapters.ObjectDeploymentAccessor,
) (ctrl.Result, error) {
	s.calls++
	return ctrl.Result{}, nil
}

// vTemplateSpec fills every field of the template spec, so that "the created ObjectSet's spec equals the template"
// is about the whole spec.
func vTemplateSpec(objName string) corev1alpha1.ObjectSetTemplateSpec {
	return corev1alpha1.ObjectSetTemplateSpec{
		Phases: []corev1alpha1.ObjectSetTemplatePhase{{Name: "p", Objects: []corev1alpha1.ObjectSetObject{vCM(objName)}}},
		AvailabilityProbes: []corev1alpha1.ObjectSetProbe{{
			Probes:   []corev1alpha1.Probe{{Condition: &corev1alpha1.ProbeConditionSpec{Type: "Available", Status: "True"}}},
			Selector: corev1alpha1.ProbeSelector{Kind: &corev1alpha1.PackageProbeKindSpec{Group: "apps", Kind: "Deployment"}},
		}},
		SuccessDelaySeconds: 30,
	}
}

const (
	pausedByParentAnnotationKey = "package-operator.run/paused-by-parent"
)

type vListed struct {
	os             adapters.ObjectSetAccessor
	rev            int64
	hash           string
	hasHash        bool
	lifecycle      string
	pausedByParent bool // annotation present with value "true"
}

// VerifC07C09Deployment: one pass of the ObjectDeployment's ObjectSet reconciler (real new-revision reconciler,
// archival stubbed) over an arbitrary list of existing ObjectSets.
func VerifC07C09Deployment() {
	// the namespaced and the cluster-scoped API types go through twin adapters
	cluster := verifrt.Bound("clusterScoped", 0) == 1
	ns := "ns"
	var dep adapters.ObjectDeploymentAccessor
	paused := verifrt.Bool("deployment.paused")
	emptyTemplate := verifrt.Bool("template.empty")
	tmplHash := verifrt.StringFrom("status.templateHash", "h0", "h1")
	var tmplSpec corev1alpha1.ObjectSetTemplateSpec
	if !emptyTemplate {
		tmplSpec = vTemplateSpec("A")
	}
	if cluster {
		ns = ""
		d := &adapters.ClusterObjectDeployment{}
		d.Name, d.UID, d.Generation = "dep", "uid-dep", 4
		d.Spec.Paused, d.Spec.Template.Spec = paused, tmplSpec
		d.Spec.Template.Metadata.Labels = map[string]string{"app": "x"}
		d.Status.TemplateHash = tmplHash
		dep = d
	} else {
		d := &adapters.ObjectDeployment{}
		d.Name, d.Namespace, d.UID, d.Generation = "dep", "ns", "uid-dep", 4
		d.Spec.Paused, d.Spec.Template.Spec = paused, tmplSpec
		d.Spec.Template.Metadata.Labels = map[string]string{"app": "x"}
		d.Status.TemplateHash = tmplHash
		dep = d
	}
	var oldCC *int32
	if verifrt.Bool("collisionCount.set") {
		v := verifrt.Int32("collisionCount")
		verifrt.Assume(v >= 0 && v < 1<<30)
		oldCC = &v
		cc := v
		dep.SetStatusCollisionCount(&cc)
	}

	n := verifrt.IntRange("nObjectSets", 0, verifrt.Bound("maxObjectSets", 2))
	listed := make([]*vListed, n)
	list := []adapters.ObjectSetAccessor{} // what the real lister returns for "none": empty, not nil
	for k := 0; k < n; k++ {
		p := "os" + strconv.Itoa(k)
		l := &vListed{}
		l.rev = verifrt.Int64(p + ".revision")
		verifrt.Assume(l.rev >= 0 && l.rev < 1<<62)
		if k > 0 {
			verifrt.Assume(listed[k-1].rev <= l.rev) // listObjectSetsByRevision sorts ascending
		}
		l.hasHash = verifrt.Bool(p + ".hasHashAnnotation")
		ann := map[string]string{}
		if l.hasHash {
			l.hash = verifrt.StringFrom(p+".hash", "h0", "h1")
			ann[ObjectSetHashAnnotation] = l.hash
		}
		l.lifecycle = verifrt.StringFrom(p+".lifecycle", string(corev1alpha1.ObjectSetLifecycleStateActive),
			string(corev1alpha1.ObjectSetLifecycleStatePaused), string(corev1alpha1.ObjectSetLifecycleStateArchived))
		l.pausedByParent = verifrt.Bool(p + ".pausedByParentAnnotation")
		if l.pausedByParent {
			ann[pausedByParentAnnotationKey] = "true"
		}
		if cluster {
			os := &adapters.ClusterObjectSetAdapter{}
			os.Name, os.Annotations = p, ann
			os.Status.Revision = l.rev
			os.Spec.LifecycleState = corev1alpha1.ObjectSetLifecycleState(l.lifecycle)
			os.Spec.ObjectSetTemplateSpec = vTemplateSpec("A")
			l.os = os
		} else {
			os := &adapters.ObjectSetAdapter{}
			os.Name, os.Namespace, os.Annotations = p, "ns", ann
			os.Status.Revision = l.rev
			os.Spec.LifecycleState = corev1alpha1.ObjectSetLifecycleState(l.lifecycle)
			os.Spec.ObjectSetTemplateSpec = vTemplateSpec("A")
			l.os = os
		}
		listed[k] = l
		list = append(list, l.os)
	}

	c := verifk8s.NewClient()
	createOutcome := verifrt.IntRange("create.outcome", 0, 2) // ok | AlreadyExists | other error
	// the ObjectSet that already sits under the new name
	conflictArchived := false
	conflictSameSpec := true
	conflictController := 0 // deployment | other | none
	var conflictRev int64
	if createOutcome == 1 {
		conflict := &corev1alpha1.ObjectSet{}
		conflict.Name, conflict.Namespace = "dep-"+"h0", ns
		conflictArchived = verifrt.Bool("conflict.archived")
		if conflictArchived {
			conflict.Spec.LifecycleState = corev1alpha1.ObjectSetLifecycleStateArchived
		}
		conflictSameSpec = verifrt.Bool("conflict.sameSpec")
		if conflictSameSpec {
			conflict.Spec.ObjectSetTemplateSpec = vTemplateSpec("A")
		} else {
			conflict.Spec.ObjectSetTemplateSpec = vTemplateSpec("B")
		}
		conflictRev = verifrt.Int64("conflict.revision")
		verifrt.Assume(conflictRev >= 0 && conflictRev < 1<<62)
		conflict.Status.Revision = conflictRev
		conflictController = verifrt.IntRange("conflict.controller", 0, 2)
		t := true
		switch conflictController {
		case 0:
			conflict.OwnerReferences = []metav1.OwnerReference{{APIVersion: "package-operator.run/v1alpha1", Kind: "ObjectDeployment", Name: "dep", UID: "uid-dep", Controller: &t}}
		case 1:
			conflict.OwnerReferences = []metav1.OwnerReference{{APIVersion: "package-operator.run/v1alpha1", Kind: "ObjectDeployment", Name: "dep", UID: "uid-other", Controller: &t}}
		}
		// it is stored under whichever name the reconciler asks for
		for _, h := range []string{"h0", "h1"} {
			cc := conflict.DeepCopy()
			cc.Name = "dep-" + h
			if cluster {
				ccc := &corev1alpha1.ClusterObjectSet{}
				verifk8s.FromMap(verifk8s.ToMap(cc), ccc)
				for k := range ccc.OwnerReferences {
					ccc.OwnerReferences[k].Kind = "ClusterObjectDeployment"
				}
				c.Put(ccc)
			} else {
				c.Put(cc)
			}
		}
	}
	c.Outcome = func(call *verifk8s.Call) error {
		if call.Verb == "create" {
			switch createOutcome {
			case 1:
				return verifk8s.AlreadyExists(call.Key.Name)
			case 2:
				return verifk8s.ErrOpaque
			}
		}
		return nil
	}
	archive := &vSubReconciler{}
	newOS := adapters.NewObjectSet
	if cluster {
		newOS = adapters.NewClusterObjectSet
	}
	r := &objectSetReconciler{
		client: c,
		listObjectSetsForDeployment: func(context.Context, adapters.ObjectDeploymentAccessor) ([]adapters.ObjectSetAccessor, error) {
			return list, nil
		},
		reconcilers: []objectSetSubReconciler{
			&newRevisionReconciler{client: c, newObjectSet: newOS, scheme: vScheme()},
			archive,
		},
	}
	_, err := r.Reconcile(context.Background(), dep)

	// ---- oracle
	var creates, updates []verifk8s.Call
	for _, call := range c.Calls {
		switch call.Verb {
		case "create":
			creates = append(creates, call)
		case "update":
			updates = append(updates, call)
		}
	}
	anyUnreported := false
	for _, l := range listed {
		anyUnreported = verifrt.Or(anyUnreported, l.rev == 0)
	}
	newestMatches := false
	if n > 0 {
		newestMatches = verifrt.And(listed[n-1].hasHash, listed[n-1].hash == tmplHash)
	}
	shouldCreate := verifrt.And(verifrt.And(!paused, verifrt.Not(anyUnreported)), verifrt.And(!emptyTemplate, verifrt.Not(newestMatches)))
	verifrt.Assert(len(creates) <= 1, "C07/at-most-one-create")
	verifrt.Assert(verifrt.Implies(len(creates) > 0, shouldCreate), "C07/create-only-when-template-unmatched")
	verifrt.Assert(verifrt.Implies(shouldCreate, len(creates) == 1), "C07/create-when-template-unmatched")
	if len(creates) == 1 {
		verifrt.Reach("created")
		created := &corev1alpha1.ObjectSet{}
		verifk8s.FromMap(creates[0].Obj, created)
		verifrt.Assert(equality.Semantic.DeepEqual(created.Spec.ObjectSetTemplateSpec, tmplSpec), "C07/created-spec-equals-template")
		verifrt.Assert(created.Name == "dep-"+tmplHash && created.Namespace == ns, "C07/name-from-template-hash")
		verifrt.Assert(created.Annotations[ObjectSetHashAnnotation] == tmplHash, "C07/hash-annotation")
		okPrev := len(created.Spec.Previous) == n
		for k := 0; k < n && k < len(created.Spec.Previous); k++ {
			if created.Spec.Previous[k].Name != listed[k].os.ClientObject().GetName() {
				okPrev = false
			}
		}
		verifrt.Assert(okPrev, "C07/previous-names-every-existing-objectset")
		ctrlOK := len(created.OwnerReferences) == 1 && created.OwnerReferences[0].UID == "uid-dep" &&
			created.OwnerReferences[0].Controller != nil && *created.OwnerReferences[0].Controller
		verifrt.Assert(ctrlOK, "C07/controlled-by-deployment")
		verifrt.Assert(created.Status.Revision == 0, "C07/revision-left-to-objectset-controller")
	}
	// name clash handling
	if len(creates) == 1 && createOutcome == 1 {
		var latest int64
		if n > 0 {
			latest = listed[n-1].rev
		}
		slowCache := verifrt.And(verifrt.And(!conflictArchived, conflictSameSpec), verifrt.And(conflictController == 0, conflictRev >= latest))
		newCC := dep.GetStatusCollisionCount()
		bumped := false
		if newCC != nil {
			if oldCC == nil {
				bumped = *newCC == 1
			} else {
				bumped = *newCC == *oldCC+1
			}
		}
		unchanged := (newCC == nil && oldCC == nil) || (newCC != nil && oldCC != nil && *newCC == *oldCC)
		verifrt.Assert(verifrt.Implies(verifrt.Not(slowCache), bumped), "C07/clash-bumps-collision-counter")
		verifrt.Assert(verifrt.Implies(slowCache, unchanged), "C07/slow-cache-is-not-a-clash")
		verifrt.Assert(err == nil, "C07/clash-is-not-an-error")
		verifrt.Reach("name-clash")
	}
	// C09: pause propagation
	for k, l := range listed {
		archived := l.lifecycle == string(corev1alpha1.ObjectSetLifecycleStateArchived)
		isPausedByParent := verifrt.And(l.lifecycle == string(corev1alpha1.ObjectSetLifecycleStatePaused), l.pausedByParent)
		var upd *verifk8s.Call
		for j := range updates {
			if updates[j].Key.Name == "os"+strconv.Itoa(k) {
				upd = &updates[j]
			}
		}
		wantUpdate := verifrt.And(verifrt.Not(archived), verifrt.Not(anyUnreported))
		if paused {
			wantUpdate = verifrt.And(wantUpdate, verifrt.Not(isPausedByParent))
		} else {
			wantUpdate = verifrt.And(wantUpdate, isPausedByParent)
		}
		verifrt.Assert(verifrt.Implies(upd != nil, wantUpdate), "C09/pause-propagated-only-where-needed")
		verifrt.Assert(verifrt.Implies(wantUpdate, upd != nil), "C09/pause-propagated-to-every-live-revision")
		if upd != nil {
			spec, _ := upd.Obj["spec"].(map[string]interface{})
			ls, _ := spec["lifecycleState"].(string)
			md, _ := upd.Obj["metadata"].(map[string]interface{})
			ann, _ := md["annotations"].(map[string]interface{})
			_, hasAnn := ann[pausedByParentAnnotationKey]
			if paused {
				verifrt.Assert(ls == string(corev1alpha1.ObjectSetLifecycleStatePaused) && hasAnn, "C09/paused-with-parent-marker")
				verifrt.Reach("paused-by-parent")
			} else {
				verifrt.Assert(ls == string(corev1alpha1.ObjectSetLifecycleStateActive) && !hasAnn, "C09/unpause-releases-parent-paused")
				verifrt.Reach("released-by-parent")
			}
		}
	}
	if paused {
		verifrt.Assert(len(creates) == 0 && archive.calls == 0, "C09/paused-deployment-creates-and-archives-nothing")
	}
	_ = apimachineryerrors.IsNotFound
}
