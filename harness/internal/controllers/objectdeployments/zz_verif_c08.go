//go:build verif

package objectdeployments

import (
	"context"
	"strconv"

	metav1 "k8s.io/apimachinery/pkg/apis/meta/v1"
	"k8s.io/apimachinery/pkg/apis/meta/v1/unstructured"
	"k8s.io/apimachinery/pkg/runtime"

	corev1alpha1 "package-operator.run/apis/core/v1alpha1"
	"package-operator.run/internal/adapters"
	"package-operator.run/internal/verifk8s"
	"package-operator.run/internal/verifrt"
)

func vScheme() *runtime.Scheme {
	if verifrt.Symbolic() {
		return &runtime.Scheme{}
	}
	s := runtime.NewScheme()
	if err := corev1alpha1.AddToScheme(s); err != nil {
		panic(err)
	}
	return s
}

// vRev is the harness's own record of one revision's pre-state.
type vRev struct {
	name         string
	rev          int64
	available    bool // Available condition True
	pausedStatus bool // Paused condition True
	lifecycle    string
	ctrlReported bool     // status.controllerOf != nil
	controllerOf []string // names
	objects      []string // names of objects in phases
	os           *adapters.ObjectSetAdapter
}

var vObjUniverse = []string{"A", "B"}

func vCM(name string) corev1alpha1.ObjectSetObject {
	u := unstructured.Unstructured{Object: map[string]interface{}{}}
	u.SetAPIVersion("v1")
	u.SetKind("ConfigMap")
	u.SetName(name)
	return corev1alpha1.ObjectSetObject{Object: u}
}

func vDrawRevision(k int) *vRev {
	p := "r" + strconv.Itoa(k)
	r := &vRev{name: p}
	os := &adapters.ObjectSetAdapter{}
	os.Name, os.Namespace = p, "ns"
	os.UID = "uid-" + os.UID
	os.Generation = 1
	r.rev = verifrt.Int64(p + ".revision")
	verifrt.Assume(r.rev >= 1 && r.rev < 1<<62)
	os.Status.Revision = r.rev
	if verifrt.Bound("slim", 0) == 1 {
		// longer chains (history pruning): every revision confirmed paused, reporting an empty controllerOf, one object;
		// only availability and lifecycle vary
		r.available = verifrt.Bool(p + ".available")
		avail := metav1.ConditionFalse
		if r.available {
			avail = metav1.ConditionTrue
		}
		r.pausedStatus = true
		os.Status.Conditions = []metav1.Condition{{Type: corev1alpha1.ObjectSetAvailable, Status: avail}, {Type: corev1alpha1.ObjectSetPaused, Status: metav1.ConditionTrue}}
		r.lifecycle = verifrt.StringFrom(p+".lifecycle", string(corev1alpha1.ObjectSetLifecycleStatePaused), string(corev1alpha1.ObjectSetLifecycleStateArchived))
		os.Spec.LifecycleState = corev1alpha1.ObjectSetLifecycleState(r.lifecycle)
		r.ctrlReported = true
		os.Status.ControllerOf = []corev1alpha1.ControlledObjectReference{}
		r.objects = []string{"A"}
		os.Spec.Phases = []corev1alpha1.ObjectSetTemplatePhase{{Name: "p", Objects: []corev1alpha1.ObjectSetObject{vCM("A")}}}
		r.os = os
		return r
	}
	// Available / Paused conditions with arbitrary status (an absent condition behaves like Unknown here)
	avail := verifrt.StringFrom(p+".Available", "True", "False", "Unknown")
	r.available = avail == "True"
	os.Status.Conditions = append(os.Status.Conditions, metav1.Condition{Type: corev1alpha1.ObjectSetAvailable, Status: metav1.ConditionStatus(avail)})
	paused := verifrt.StringFrom(p+".Paused", "True", "False", "Unknown")
	r.pausedStatus = paused == "True"
	os.Status.Conditions = append(os.Status.Conditions, metav1.Condition{Type: corev1alpha1.ObjectSetPaused, Status: metav1.ConditionStatus(paused)})
	r.lifecycle = verifrt.StringFrom(p+".lifecycle", string(corev1alpha1.ObjectSetLifecycleStateActive),
		string(corev1alpha1.ObjectSetLifecycleStatePaused), string(corev1alpha1.ObjectSetLifecycleStateArchived))
	os.Spec.LifecycleState = corev1alpha1.ObjectSetLifecycleState(r.lifecycle)
	// status.controllerOf: nil | [] | [X] | [A,B]   (X symbolic)
	switch verifrt.IntRange(p+".controllerOf", 0, 3) {
	case 1:
		r.ctrlReported = true
		os.Status.ControllerOf = []corev1alpha1.ControlledObjectReference{}
	case 2:
		r.ctrlReported = true
		r.controllerOf = []string{verifrt.StringFrom(p+".controls", "A", "B")}
	case 3:
		r.ctrlReported = true
		r.controllerOf = []string{"A", "B"}
	}
	for _, n := range r.controllerOf {
		os.Status.ControllerOf = append(os.Status.ControllerOf, corev1alpha1.ControlledObjectReference{Kind: "ConfigMap", Name: n, Namespace: "ns"})
	}
	// objects in phases: [Y] | [A,B]   (Y symbolic)
	if verifrt.Bool(p + ".twoObjects") {
		r.objects = []string{"A", "B"}
	} else {
		r.objects = []string{verifrt.StringFrom(p+".object", "A", "B")}
	}
	ph := corev1alpha1.ObjectSetTemplatePhase{Name: "p"}
	for _, n := range r.objects {
		ph.Objects = append(ph.Objects, vCM(n))
	}
	os.Spec.Phases = []corev1alpha1.ObjectSetTemplatePhase{ph}
	r.os = os
	return r
}

func vDisjoint(a, b []string) bool {
	res := true
	for _, x := range a {
		for _, y := range b {
			res = verifrt.And(res, x != y)
		}
	}
	return res
}

// VerifC08Archive: one pass of the archive reconciler over an arbitrary revision chain.
func VerifC08Archive() {
	n := verifrt.IntRange("nRevisions", 1, verifrt.Bound("maxRevisions", 3))
	revs := make([]*vRev, n)
	for k := 0; k < n; k++ {
		revs[k] = vDrawRevision(k)
		if k > 0 {
			// what the ObjectDeployment controller hands over: ascending revision order, newest last (C07/C02)
			verifrt.Assume(revs[k-1].rev < revs[k].rev)
		}
	}
	current := revs[n-1]
	var prev []adapters.ObjectSetAccessor
	for k := 0; k < n-1; k++ {
		prev = append(prev, revs[k].os)
	}
	dep := &adapters.ObjectDeployment{}
	dep.Name, dep.Namespace = "dep", "ns"
	limitSet := verifrt.Bool("revisionHistoryLimit.set")
	var limit int32 = 10
	if limitSet {
		limit = verifrt.Int32("revisionHistoryLimit")
		verifrt.Assume(limit >= 0)
		l := limit
		dep.Spec.RevisionHistoryLimit = &l
	}
	c := verifk8s.NewClient()
	c.Outcome = func(call *verifk8s.Call) error {
		if verifrt.Bool("apiError." + call.Verb + "." + call.Key.Name) {
			return verifk8s.ErrOpaque
		}
		// a revision that a stale cache still lists may already be gone
		if call.Verb == "delete" && verifrt.Bool("alreadyGone."+call.Key.Name) {
			return verifk8s.NotFound(call.Key.Name)
		}
		return nil
	}
	a := &archiveReconciler{client: c}
	_, _ = a.Reconcile(context.Background(), current.os, prev, dep)

	byName := map[string]int{}
	for k, r := range revs {
		byName[r.name] = k
	}
	archived, deleted := 0, 0
	for _, call := range c.Calls {
		k, known := byName[call.Key.Name]
		verifrt.Assert(known, "C08/write-targets-a-listed-revision")
		if !known {
			continue
		}
		t := revs[k]
		switch call.Verb {
		case "update":
			spec, _ := call.Obj["spec"].(map[string]interface{})
			ls, _ := spec["lifecycleState"].(string)
			if ls == string(corev1alpha1.ObjectSetLifecycleStateArchived) && call.Verb == "update" && vWasNotArchived(t) {
				archived++
				// (a) only after the revision confirmed it is paused
				verifrt.Assert(t.pausedStatus, "C08/archive-only-after-paused-confirmed")
				// (b) never the newest
				verifrt.Assert(k != n-1, "C08/newest-never-archived")
				// (c) a newer revision is Available, or the revision is unavailable and controls nothing the next newer contains
				newerAvailable := false
				for j := k + 1; j < n; j++ {
					newerAvailable = verifrt.Or(newerAvailable, revs[j].available)
				}
				handedOver := false
				if k+1 < n {
					next := revs[k+1]
					handedOver = verifrt.And(verifrt.Not(t.available), verifrt.And(t.ctrlReported, vDisjoint(t.controllerOf, next.objects)))
				}
				verifrt.Assert(verifrt.Or(newerAvailable, handedOver), "C08/archive-only-if-superseded")
			}
		case "delete":
			deleted++
			verifrt.Assert(k != n-1, "C08/current-never-deleted")
			// only the oldest revisions beyond the history limit: position k among the previous revisions (ascending)
			verifrt.Assert(int64(k) < int64(n-1)-int64(limit), "C08/prune-only-oldest-beyond-limit")
		default:
			verifrt.Assert(false, "C08/unexpected-verb")
		}
	}
	if archived > 0 {
		verifrt.Reach("archived-something")
	}
	if deleted > 0 {
		verifrt.Reach("pruned-something")
	}
	if len(c.Calls) == 0 {
		verifrt.Reach("nothing-to-do")
	}
}

// vWasNotArchived: the update changes the lifecycle to Archived (forks on the symbolic pre-state).
func vWasNotArchived(t *vRev) bool {
	return t.lifecycle != string(corev1alpha1.ObjectSetLifecycleStateArchived)
}
