//go:build verif

package objectdeployments

import (
	"context"
	"strconv"

	"github.com/go-logr/logr"
	metav1 "k8s.io/apimachinery/pkg/apis/meta/v1"
	"k8s.io/apimachinery/pkg/types"
	ctrl "sigs.k8s.io/controller-runtime"
	"sigs.k8s.io/controller-runtime/pkg/client"

	corev1alpha1 "package-operator.run/apis/core/v1alpha1"
	"package-operator.run/internal/utils"
	"package-operator.run/internal/verifk8s"
	"package-operator.run/internal/verifrt"
)

// VerifC07Controller: one pass of the whole ObjectDeployment controller (namespaced or cluster-scoped wiring) with
// the API listing the existing ObjectSets in arbitrary order. Which revision is "the newest" must not depend on
// the order of the list: a new ObjectSet is created iff the ObjectSet with the HIGHEST revision does not carry
// the current template hash, it names every existing ObjectSet as previous, and the status (template hash) is
// persisted exactly once when the pass succeeds.
func VerifC07Controller() {
	cluster := verifrt.Bool("clusterScoped")
	ns := "ns"
	if cluster {
		ns = ""
	}
	c := verifk8s.NewClient()
	var ctl *GenericObjectDeploymentController
	tmpl := corev1alpha1.ObjectSetTemplate{Metadata: metav1.ObjectMeta{Labels: map[string]string{"app": "x"}}, Spec: vTemplateSpec("A")}
	sel := metav1.LabelSelector{MatchLabels: map[string]string{"app": "x"}}
	if cluster {
		ctl = NewClusterObjectDeploymentController(c, logr.Discard(), vScheme())
		d := &corev1alpha1.ClusterObjectDeployment{}
		d.Name, d.UID, d.Generation = "dep", "uid-dep", 4
		d.Spec.Template, d.Spec.Selector = tmpl, sel
		c.Put(d)
	} else {
		ctl = NewObjectDeploymentController(c, logr.Discard(), vScheme())
		d := &corev1alpha1.ObjectDeployment{}
		d.Name, d.Namespace, d.UID, d.Generation = "dep", ns, "uid-dep", 4
		d.Spec.Template, d.Spec.Selector = tmpl, sel
		c.Put(d)
	}
	hash := utils.ComputeFNV32Hash(tmpl, nil)
	n := verifrt.IntRange("nObjectSets", 1, verifrt.Bound("maxObjectSets", 3))
	revs := make([]int64, n)
	matches := make([]bool, n)
	var maxRev int64
	maxIdx := 0
	for k := 0; k < n; k++ {
		revs[k] = int64(verifrt.IntRange("os"+strconv.Itoa(k)+".revision", 1, n)) // as listed, in arbitrary order
		for j := 0; j < k; j++ {
			verifrt.Assume(revs[j] != revs[k])
		}
		if revs[k] > maxRev {
			maxRev, maxIdx = revs[k], k
		}
		matches[k] = verifrt.Bool("os" + strconv.Itoa(k) + ".carriesCurrentHash")
	}
	c.OnList = func(list client.ObjectList, lo *client.ListOptions) error {
		if l, ok := list.(*corev1alpha1.ObjectSetList); ok && lo.Namespace != ns {
			// the same package installed under the same name in another namespace: its ObjectSets carry the same labels
			// (and the same template hash) and must never be taken for this deployment's
			foreign := corev1alpha1.ObjectSet{}
			foreign.Name, foreign.Namespace = "foreign", "other"
			foreign.Annotations = map[string]string{ObjectSetHashAnnotation: hash}
			foreign.Status.Revision = 99
			foreign.Spec.ObjectSetTemplateSpec = vTemplateSpec("A")
			l.Items = append(l.Items, foreign)
		}
		for k := 0; k < n; k++ {
			name := "os" + strconv.Itoa(k)
			ann := map[string]string{}
			if matches[k] {
				ann[ObjectSetHashAnnotation] = hash
			} else {
				ann[ObjectSetHashAnnotation] = "stale"
			}
			switch l := list.(type) {
			case *corev1alpha1.ObjectSetList:
				os := corev1alpha1.ObjectSet{}
				os.Name, os.Namespace, os.Annotations = name, ns, ann
				os.Status.Revision = revs[k]
				os.Spec.ObjectSetTemplateSpec = vTemplateSpec("A")
				l.Items = append(l.Items, os)
			case *corev1alpha1.ClusterObjectSetList:
				os := corev1alpha1.ClusterObjectSet{}
				os.Name, os.Annotations = name, ann
				os.Status.Revision = revs[k]
				os.Spec.ObjectSetTemplateSpec = vTemplateSpec("A")
				l.Items = append(l.Items, os)
			default:
				panic("unexpected list type")
			}
		}
		return nil
	}
	_, err := ctl.Reconcile(context.Background(), ctrl.Request{NamespacedName: types.NamespacedName{Namespace: ns, Name: "dep"}})
	verifrt.Assert(err == nil, "C07/controller-pass-succeeds")
	var creates, statusUpdates []verifk8s.Call
	for _, call := range c.Calls {
		switch call.Verb {
		case "create":
			creates = append(creates, call)
		case "status-update":
			statusUpdates = append(statusUpdates, call)
		}
	}
	shouldCreate := !matches[maxIdx]
	verifrt.Assert((len(creates) == 1) == shouldCreate && len(creates) <= 1, "C07/new-objectset-iff-highest-revision-does-not-match")
	if len(creates) == 1 {
		md, _ := creates[0].Obj["metadata"].(map[string]interface{})
		spec, _ := creates[0].Obj["spec"].(map[string]interface{})
		prev, _ := spec["previous"].([]interface{})
		named := map[string]bool{}
		for _, p := range prev {
			m, _ := p.(map[string]interface{})
			s, _ := m["name"].(string)
			named[s] = true
		}
		all := len(prev) == n
		for k := 0; k < n; k++ {
			all = all && named["os"+strconv.Itoa(k)]
		}
		verifrt.Assert(all, "C07/previous-names-every-existing-objectset")
		verifrt.Assert(md["name"] == "dep-"+hash, "C07/name-from-template-hash")
		verifrt.Reach("controller-created")
	} else {
		verifrt.Reach("controller-up-to-date")
	}
	ok := len(statusUpdates) == 1
	if ok {
		st, _ := statusUpdates[0].Obj["status"].(map[string]interface{})
		ok = st["templateHash"] == hash
	}
	verifrt.Assert(ok, "C07/template-hash-persisted")
}
