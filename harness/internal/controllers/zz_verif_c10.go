//go:build verif

package controllers

import (
	"context"
	"encoding/json"

	"k8s.io/apimachinery/pkg/api/equality"
	"k8s.io/apimachinery/pkg/apis/meta/v1/unstructured"
	"k8s.io/apimachinery/pkg/runtime"
	"k8s.io/apimachinery/pkg/types"
	"sigs.k8s.io/controller-runtime/pkg/client"

	corev1alpha1 "package-operator.run/apis/core/v1alpha1"
	"package-operator.run/internal/verifrt"
)

// vApplyStore is a one-object API model: reads return the stored object, a forced server-side apply replaces the
// applied fields (A5: the body PKO applies carries the complete owner list it read plus itself) and bumps the
// resourceVersion. Faults can be injected at the k-th API call: the call fails before or after its effect.
type vApplyStore struct {
	key      client.ObjectKey
	obj      *unstructured.Unstructured // nil = absent
	calls    int
	faultAt  int  // -1 = none
	afterEff bool // fault after the effect took place (lost response)
	faulted  bool
	applies  []vWrite
	others   int
}

func (s *vApplyStore) fault() bool {
	k := s.calls
	s.calls++
	if k == s.faultAt {
		s.faulted = true
		return true
	}
	return false
}

func (s *vApplyStore) Get(_ context.Context, key client.ObjectKey, obj client.Object, _ ...client.GetOption) error {
	if s.fault() {
		return errOpaque
	}
	if s.obj == nil || key != s.key {
		return vNotFound(key)
	}
	obj.(*unstructured.Unstructured).Object = s.obj.DeepCopy().Object
	return nil
}

func (s *vApplyStore) List(context.Context, client.ObjectList, ...client.ListOption) error {
	panic("not used")
}

func (s *vApplyStore) Watch(context.Context, client.Object, runtime.Object) error { return nil }

func (s *vApplyStore) Patch(_ context.Context, obj client.Object, patch client.Patch, opts ...client.PatchOption) error {
	po := &client.PatchOptions{}
	po.ApplyOptions(opts)
	data, err := patch.Data(obj)
	if err != nil {
		return err
	}
	f := s.fault()
	if f && !s.afterEff {
		return errOpaque
	}
	if patch.Type() != types.ApplyPatchType || len(po.DryRun) > 0 {
		s.others++
	} else {
		s.applies = append(s.applies, vWrite{Verb: "patch", Key: client.ObjectKeyFromObject(obj), PatchType: patch.Type(), Data: data})
		var body map[string]interface{}
		if e := json.Unmarshal(data, &body); e != nil {
			panic(e)
		}
		applied := &unstructured.Unstructured{Object: body}
		if s.obj != nil {
			// fields the applier does not own survive (status, server-set metadata)
			if st, ok := s.obj.Object["status"]; ok {
				applied.Object["status"] = st
			}
			applied.SetUID(s.obj.GetUID())
		} else {
			applied.SetUID("uid-obj")
		}
		applied.SetResourceVersion(applied.GetResourceVersion() + "+")
		s.obj = applied
	}
	if f {
		return errOpaque
	}
	return nil
}

func (s *vApplyStore) Create(context.Context, client.Object, ...client.CreateOption) error {
	s.others++
	return nil
}
func (s *vApplyStore) Update(context.Context, client.Object, ...client.UpdateOption) error {
	s.others++
	return nil
}
func (s *vApplyStore) Delete(context.Context, client.Object, ...client.DeleteOption) error {
	s.others++
	return nil
}
func (s *vApplyStore) DeleteAllOf(context.Context, client.Object, ...client.DeleteAllOfOption) error {
	panic("not used")
}

// VerifC10Converge: the safety core of convergence for one managed object. From any pre-state in which the owner may
// work on the object (absent, already controlled, or adoption permitted), with a fault injected at any API call
// (before or after its effect): a faulted pass returns an error (so it is retried); the first fault-free pass
// applies a body that depends only on the desired object and the owner; the next pass applies the identical body
// and nothing else - further reconciles change nothing.
func VerifC10ConvergeNative()     { verifC10Converge(vStrategyNative) }
func VerifC10ConvergeAnnotation() { verifC10Converge(vStrategyAnnotation) }

func verifC10Converge(strategyKind int) {
	s := vNewAdoptionScenario(strategyKind)
	verifrt.Assume(s.revKind != 2)
	absent := verifrt.Bool("object.absent")
	byMe := s.specControlledByMe()
	verifrt.Assume(verifrt.Implies(byMe, s.objRev == s.myRev))
	if !absent {
		verifrt.Assume(verifrt.Or(byMe, s.specPermitted()))
	}
	store := &vApplyStore{key: s.key, faultAt: verifrt.IntRange("fault.atCall", -1, 3), afterEff: verifrt.Bool("fault.afterEffect")}
	if !absent {
		store.obj = s.existing
	}
	r := NewPhaseReconciler(vScheme(), store, store, store, s.strategy, &vPreflight{})
	ctx := context.Background()
	pass := func() error {
		desired := r.desiredObject(ctx, s.owner, corev1alpha1.ObjectSetObject{Object: *s.desired})
		if err := s.strategy.SetControllerReference(s.owner.ClientObject(), desired); err != nil {
			return err
		}
		_, err := r.reconcileObject(ctx, s.owner, desired, s.prev, s.cp)
		return err
	}
	// pass 1 (possibly faulted)
	err1 := pass()
	if store.faulted {
		verifrt.Assert(err1 != nil, "C10/faulted-pass-returns-error-and-is-retried")
		verifrt.Reach("faulted")
	} else {
		verifrt.Assert(err1 == nil, "C10/fault-free-pass-succeeds")
	}
	// disturbances stop
	store.faultAt = -1
	n0 := len(store.applies)
	err2 := pass()
	verifrt.Assert(err2 == nil && len(store.applies) == n0+1, "C10/fault-free-pass-applies-once")
	err3 := pass()
	verifrt.Assert(err3 == nil && len(store.applies) == n0+2 && store.others == 0, "C10/second-pass-applies-once-more-and-nothing-else")
	if len(store.applies) < n0+2 {
		return
	}
	var b2, b3 map[string]interface{}
	_ = json.Unmarshal(store.applies[n0].Data, &b2)
	_ = json.Unmarshal(store.applies[n0+1].Data, &b3)
	verifrt.Assert(equality.Semantic.DeepEqual(b2, b3), "C10/further-reconciles-change-nothing")
	// canonical form: apart from the owners that are carried along, the applied body is the desired object of this owner
	want := r.desiredObject(ctx, s.owner, corev1alpha1.ObjectSetObject{Object: *s.desired})
	if err := s.strategy.SetControllerReference(s.owner.ClientObject(), want); err != nil {
		panic(err)
	}
	u3 := &unstructured.Unstructured{Object: b3}
	verifrt.Assert(u3.GetName() == want.GetName() && u3.GetNamespace() == want.GetNamespace() &&
		equality.Semantic.DeepEqual(u3.GetLabels(), want.GetLabels()) &&
		equality.Semantic.DeepEqual(u3.Object["data"], want.Object["data"]) &&
		u3.GetAnnotations()[corev1alpha1.ObjectSetRevisionAnnotation] == want.GetAnnotations()[corev1alpha1.ObjectSetRevisionAnnotation],
		"C10/applied-body-depends-only-on-desired-state")
	m := s.vInspectApply(store.applies[n0+1])
	verifrt.Assert(m.controllers == 1 && m.meIsController, "C10/owner-is-sole-controller-at-fixpoint")
	verifrt.Reach("converged")
}
