//go:build verif

package objectsets

import (
	"context"
	"encoding/json"

	"k8s.io/apimachinery/pkg/api/meta"
	metav1 "k8s.io/apimachinery/pkg/apis/meta/v1"
	"k8s.io/apimachinery/pkg/types"
	ctrl "sigs.k8s.io/controller-runtime"
	"sigs.k8s.io/controller-runtime/pkg/client"

	corev1alpha1 "package-operator.run/apis/core/v1alpha1"
	"package-operator.run/internal/adapters"
	"package-operator.run/internal/constants"
	"package-operator.run/internal/verifk8s"
	"package-operator.run/internal/verifrt"
)

type vTeardownDouble struct {
	calls int
	done  bool
	err   bool
}

func (t *vTeardownDouble) Teardown(context.Context, adapters.ObjectSetAccessor) (bool, error) {
	t.calls++
	if t.err {
		return false, errPhase
	}
	return t.done, nil
}

type vReconcilerDouble struct {
	calls        int
	outcome      int // 0 ok, 1 error, 2 adoption refused style error is covered in C01
	setAvailable bool
}

func (r *vReconcilerDouble) Reconcile(_ context.Context, os adapters.ObjectSetAccessor) (ctrl.Result, error) {
	r.calls++
	if r.outcome == 1 {
		return ctrl.Result{}, errPhase
	}
	if r.setAvailable {
		meta.SetStatusCondition(os.GetConditions(), metav1.Condition{Type: corev1alpha1.ObjectSetAvailable, Status: metav1.ConditionTrue,
			Reason: "Available", ObservedGeneration: os.ClientObject().GetGeneration()})
	}
	return ctrl.Result{}, nil
}

func vCondStatus(obj map[string]interface{}, typ string) (string, bool) {
	st, _ := obj["status"].(map[string]interface{})
	if st == nil {
		return "", false
	}
	conds, _ := st["conditions"].([]interface{})
	for _, c := range conds {
		m, _ := c.(map[string]interface{})
		if m != nil && m["type"] == typ {
			s, _ := m["status"].(string)
			return s, true
		}
	}
	return "", false
}

// VerifC04C06Controller: one pass of the ObjectSet controller over an ObjectSet that is active, being deleted, being
// archived or already archived, with an arbitrary teardown answer. C04: finalizer and Archived=True only when
// teardown is done. C06: an archived ObjectSet is left alone and shows no Available condition / controllerOf.
func VerifC04C06Controller() {
	c := verifk8s.NewClient()
	c.PatchAnswersStored = true
	cache := verifk8s.NewCache()
	os := &corev1alpha1.ObjectSet{}
	os.Name, os.Namespace, os.UID = "me", "ns", "uid-me"
	os.ResourceVersion = verifrt.StringFrom("resourceVersion", "100", "101")
	os.Generation = verifrt.Int64("generation")
	deleting := verifrt.Bool("deleting")
	if deleting {
		now := metav1.Now()
		os.DeletionTimestamp = &now
	}
	archivedSpec := verifrt.Bool("spec.archived")
	if archivedSpec {
		os.Spec.LifecycleState = corev1alpha1.ObjectSetLifecycleStateArchived
	}
	hasCachedFinalizer := verifrt.Bool("finalizer.cached")
	if hasCachedFinalizer {
		os.Finalizers = append(os.Finalizers, constants.CachedFinalizer)
	}
	if verifrt.Bool("finalizer.foreign") {
		os.Finalizers = append(os.Finalizers, "example.com/foreign")
	}
	archivedCond := verifrt.IntRange("cond.Archived", 0, 2) // absent | True | False
	switch archivedCond {
	case 1:
		os.Status.Conditions = append(os.Status.Conditions, metav1.Condition{Type: corev1alpha1.ObjectSetArchived, Status: metav1.ConditionTrue, Reason: "Archived"})
	case 2:
		os.Status.Conditions = append(os.Status.Conditions, metav1.Condition{Type: corev1alpha1.ObjectSetArchived, Status: metav1.ConditionFalse, Reason: "ArchivalInProgress"})
	}
	if verifrt.Bool("cond.Available.pre") {
		os.Status.Conditions = append(os.Status.Conditions, metav1.Condition{Type: corev1alpha1.ObjectSetAvailable, Status: metav1.ConditionTrue, Reason: "Available"})
	}
	if verifrt.Bool("controllerOf.pre") {
		os.Status.ControllerOf = []corev1alpha1.ControlledObjectReference{{Kind: "ConfigMap", Name: "x", Namespace: "ns"}}
	}
	c.Put(os)

	td := &vTeardownDouble{done: verifrt.Bool("teardown.done"), err: verifrt.Bool("teardown.err")}
	rec := &vReconcilerDouble{outcome: verifrt.IntRange("reconciler.outcome", 0, 1), setAvailable: true}
	ctl := &GenericObjectSetController{
		newObjectSet:      adapters.NewObjectSet,
		newObjectSetPhase: newGenericObjectSetPhase,
		client:            c,
		scheme:            vScheme(),
		reconciler:        []reconciler{rec},
		dynamicCache:      cache,
		teardownHandler:   td,
	}
	_, err := ctl.Reconcile(context.Background(), ctrl.Request{NamespacedName: types.NamespacedName{Namespace: "ns", Name: "me"}})

	var writes []verifk8s.Call
	for _, x := range c.Calls {
		if x.IsRealWrite() {
			writes = append(writes, x)
		}
	}
	var finalizerPatches, statusUpdates []verifk8s.Call
	for _, x := range writes {
		switch x.Verb {
		case "patch":
			finalizerPatches = append(finalizerPatches, x)
		case "status-update":
			statusUpdates = append(statusUpdates, x)
		}
	}

	if archivedCond == 1 {
		// archival completed earlier: never reconciled again, nothing written
		verifrt.Assert(len(writes) == 0 && td.calls == 0 && rec.calls == 0 && len(cache.Freed) == 0 && err == nil, "C06/archived-is-left-alone")
		verifrt.Reach("already-archived")
		return
	}
	if deleting || archivedSpec {
		verifrt.Assert(rec.calls == 0, "C04/no-rollout-while-tearing-down")
		verifrt.Assert(td.calls == 1 == hasCachedFinalizer, "C04/teardown-runs-while-finalizer-present")
		tdDone := !hasCachedFinalizer || (td.done && !td.err)
		// the cached finalizer is removed only when teardown reported done
		removed := false
		for _, p := range finalizerPatches {
			var body map[string]interface{}
			if e := json.Unmarshal(p.Data, &body); e != nil {
				panic(e)
			}
			md, _ := body["metadata"].(map[string]interface{})
			fins, _ := md["finalizers"].([]interface{})
			has := false
			for _, f := range fins {
				if f == constants.CachedFinalizer {
					has = true
				}
			}
			if !has {
				removed = true
				// optimistic concurrency: the patch carries the resourceVersion that was read
				verifrt.Assert(md["resourceVersion"] == os.ResourceVersion, "C04/finalizer-patch-carries-resourceVersion")
				// watches are released before the finalizer goes
				verifrt.Assert(len(cache.Freed) == 1, "C04/free-before-finalizer-removal")
			}
		}
		verifrt.Assert(!removed || tdDone, "C04/finalizer-held-until-teardown-done")
		verifrt.Assert(!(tdDone && hasCachedFinalizer && !td.err) || removed, "C04/finalizer-released-when-done")
		if td.err && hasCachedFinalizer {
			verifrt.Assert(err != nil && len(writes) == 0, "C04/teardown-error-writes-nothing")
			verifrt.Reach("teardown-error")
			return
		}
		if archivedSpec {
			// status written in this pass
			verifrt.Assert(len(statusUpdates) == 1, "C04/archival-status-reported")
			if len(statusUpdates) == 1 {
				su := statusUpdates[0]
				st, has := vCondStatus(su.Obj, corev1alpha1.ObjectSetArchived)
				_, hasAvail := vCondStatus(su.Obj, corev1alpha1.ObjectSetAvailable)
				status, _ := su.Obj["status"].(map[string]interface{})
				_, hasControllerOf := status["controllerOf"]
				if tdDone {
					verifrt.Assert(has && st == "True", "C04/archived-true-when-done")
					verifrt.Assert(!hasAvail && !hasControllerOf, "C06/archived-shows-no-available-and-no-controllerOf")
					verifrt.Reach("archived")
				} else {
					verifrt.Assert(has && st == "False", "C04/archived-false-while-pending")
					verifrt.Assert(!hasAvail, "C06/no-available-while-archiving")
					verifrt.Reach("archival-pending")
				}
			}
		} else {
			verifrt.Assert(len(statusUpdates) == 0, "C04/no-status-write-on-deleted-object")
			if tdDone {
				verifrt.Reach("deleted")
			} else {
				verifrt.Reach("deletion-pending")
			}
		}
		return
	}
	// active path: finalizer ensured before any reconciler runs, status persisted once
	verifrt.Assert(rec.calls == 1 && td.calls == 0, "C04/active-path-reconciles")
	if !hasCachedFinalizer {
		verifrt.Assert(len(finalizerPatches) == 1, "C04/finalizer-added-first")
	}
	if rec.outcome == 0 {
		verifrt.Assert(len(statusUpdates) == 1 && err == nil, "C06/status-persisted")
		verifrt.Reach("active")
	} else {
		verifrt.Assert(err != nil, "C06/error-returned-for-requeue")
		verifrt.Reach("active-error")
	}
}

var _ client.Object = (*corev1alpha1.ObjectSet)(nil)

// VerifC09ObjectSetPaused: a paused ObjectSet keeps being reconciled for status only and reports Paused truthfully,
// also when phases are delegated.
func VerifC09ObjectSetPaused() {
	c := verifk8s.NewClient()
	cache := verifk8s.NewCache()
	os := &corev1alpha1.ObjectSet{}
	os.Name, os.Namespace, os.UID = "me", "ns", "uid-me"
	os.Generation = 4
	os.Finalizers = []string{constants.CachedFinalizer}
	paused := verifrt.Bool("spec.paused")
	if paused {
		os.Spec.LifecycleState = corev1alpha1.ObjectSetLifecycleStatePaused
	}
	if verifrt.Bool("pre.PausedCondition") {
		os.Status.Conditions = append(os.Status.Conditions, metav1.Condition{Type: corev1alpha1.ObjectSetPaused, Status: metav1.ConditionTrue, Reason: "Paused"})
	}
	remote := verifrt.IntRange("remotePhase", 0, 3) // none | missing | reports paused | reports not paused
	if remote > 0 {
		os.Status.RemotePhases = []corev1alpha1.RemotePhaseReference{{Name: "me-p", UID: "uid-phase"}}
	}
	if remote >= 2 {
		p := &corev1alpha1.ObjectSetPhase{}
		p.Name, p.Namespace = "me-p", "ns"
		if remote == 2 {
			p.Status.Conditions = []metav1.Condition{{Type: corev1alpha1.ObjectSetPhasePaused, Status: metav1.ConditionTrue}}
		}
		c.Put(p)
	}
	c.Put(os)
	rec := &vReconcilerDouble{}
	ctl := &GenericObjectSetController{newObjectSet: adapters.NewObjectSet, newObjectSetPhase: newGenericObjectSetPhase, client: c,
		scheme: vScheme(), reconciler: []reconciler{rec}, dynamicCache: cache, teardownHandler: &vTeardownDouble{}}
	_, err := ctl.Reconcile(context.Background(), ctrl.Request{NamespacedName: types.NamespacedName{Namespace: "ns", Name: "me"}})
	verifrt.Assert(err == nil && rec.calls == 1, "C09/paused-objectset-still-reconciled-for-status")
	var su *verifk8s.Call
	for k := range c.Calls {
		if c.Calls[k].Verb == "status-update" {
			su = &c.Calls[k]
		}
	}
	verifrt.Assert(su != nil, "C09/status-reported")
	if su == nil {
		return
	}
	st, found := vCondStatus(su.Obj, corev1alpha1.ObjectSetPaused)
	phasesPaused := paused
	unknown := false
	switch remote {
	case 1:
		unknown = true
	case 2:
		phasesPaused = true
	case 3:
		phasesPaused = false
	}
	switch {
	case unknown || paused != phasesPaused:
		verifrt.Assert(found && st == "Unknown", "C09/paused-unknown-while-phases-disagree")
		verifrt.Reach("unknown")
	case paused:
		verifrt.Assert(found && st == "True", "C09/paused-reported")
		verifrt.Reach("paused")
	default:
		verifrt.Assert(!found, "C09/paused-condition-removed-when-active")
		verifrt.Reach("active")
	}
}
