//go:build verif

package objectsets

import (
	"context"
	"errors"
	"strconv"

	apimachineryerrors "k8s.io/apimachinery/pkg/api/errors"
	"k8s.io/apimachinery/pkg/api/meta"
	metav1 "k8s.io/apimachinery/pkg/apis/meta/v1"
	"k8s.io/apimachinery/pkg/apis/meta/v1/unstructured"
	"k8s.io/apimachinery/pkg/runtime/schema"
	"k8s.io/apimachinery/pkg/types"

	corev1alpha1 "package-operator.run/apis/core/v1alpha1"
	"package-operator.run/internal/adapters"
	"package-operator.run/internal/controllers"
	"package-operator.run/internal/preflight"
	"package-operator.run/internal/verifk8s"
	"package-operator.run/internal/verifrt"
)

type vC11Object struct {
	name      string
	kind      string
	namespace string // as listed in the phase
	scope     int
	presetRef bool
	dryRun    int // 0 ok, 1 Forbidden, 2 Invalid, 3 NotFound on patch then create ok, 4 empty reason + typed patch message, 5 opaque error
	exists    bool
}

func vStatusErr(reason metav1.StatusReason, msg string) error {
	return &apimachineryerrors.StatusError{ErrStatus: metav1.Status{Status: metav1.StatusFailure, Reason: reason, Message: msg}}
}

// vC11Setup builds the real ObjectSet controller (real preflight checker composition from its constructor) on doubles.
func vC11Setup(ownerNamespaced bool) (*GenericObjectSetController, *verifk8s.Client, *verifk8s.Cache, *verifk8s.Client, *verifk8s.RESTMapper) {
	c := verifk8s.NewClient()
	cache := verifk8s.NewCache()
	uncached := verifk8s.NewClient()
	mapper := &verifk8s.RESTMapper{Scope: map[string]int{}}
	var ctl *GenericObjectSetController
	if ownerNamespaced {
		ctl = NewObjectSetController(c, vNoLog(), vScheme(), cache, uncached, nil, mapper)
	} else {
		ctl = NewClusterObjectSetController(c, vNoLog(), vScheme(), cache, uncached, nil, mapper)
	}
	return ctl, c, cache, uncached, mapper
}

func vDrawC11Object(k int, ownerNS string, mapper *verifk8s.RESTMapper) *vC11Object {
	p := "obj" + strconv.Itoa(k)
	o := &vC11Object{name: p, kind: "Kind" + strconv.Itoa(k)}
	o.namespace = verifrt.StringFrom(p+".namespace", "", "ns", "other")
	if verifrt.Bound("slim", 0) == 1 {
		// reduced variety per object so that several objects fit: scope ns/cluster/NoMatch, dry run ok/Forbidden
		o.scope = verifrt.IntRange(p+".scope", 0, 2)
		mapper.Scope[o.kind] = o.scope
		o.presetRef = verifrt.Bool(p + ".presetOwnerReference")
		o.dryRun = verifrt.IntRange(p+".dryRun", 0, 1)
		return o
	}
	o.scope = verifrt.IntRange(p+".scope", 0, 3)
	mapper.Scope[o.kind] = o.scope
	o.presetRef = verifrt.Bool(p + ".presetOwnerReference")
	o.dryRun = verifrt.IntRange(p+".dryRun", 0, 5)
	o.exists = verifrt.Bool(p + ".exists")
	return o
}

func (o *vC11Object) object() corev1alpha1.ObjectSetObject {
	u := unstructured.Unstructured{Object: map[string]interface{}{}}
	u.SetAPIVersion("example.com/v1")
	u.SetKind(o.kind)
	u.SetName(o.name)
	if o.namespace != "" {
		u.SetNamespace(o.namespace)
	}
	if o.presetRef {
		u.SetOwnerReferences([]metav1.OwnerReference{{APIVersion: "v1", Kind: "ConfigMap", Name: "x", UID: "u"}})
	}
	return corev1alpha1.ObjectSetObject{Object: u}
}

// VerifC11Rollout: real ObjectSet controller wiring; one phase with arbitrary valid/violating objects.
func VerifC11Rollout() {
	ownerNamespaced := verifrt.Bool("owner.namespaced")
	ctl, c, cache, uncached, mapper := vC11Setup(ownerNamespaced)
	_ = cache
	var os adapters.ObjectSetAccessor
	ownerNS := ""
	if ownerNamespaced {
		ownerNS = "ns"
		a := &adapters.ObjectSetAdapter{}
		a.Name, a.Namespace, a.UID = "me", "ns", "uid-me"
		a.Generation, a.Status.Revision = 5, 2
		os = a
	} else {
		a := &adapters.ClusterObjectSetAdapter{}
		a.Name, a.UID = "me", "uid-me"
		a.Generation, a.Status.Revision = 5, 2
		os = a
	}
	n := verifrt.IntRange("nObjects", 1, verifrt.Bound("maxObjects", 2))
	objs := make([]*vC11Object, n)
	ph := corev1alpha1.ObjectSetTemplatePhase{Name: "p"}
	for k := 0; k < n; k++ {
		objs[k] = vDrawC11Object(k, ownerNS, mapper)
		ph.Objects = append(ph.Objects, objs[k].object())
	}
	os.SetPhases([]corev1alpha1.ObjectSetTemplatePhase{ph})
	byName := map[string]*vC11Object{}
	for _, o := range objs {
		byName[o.name] = o
	}
	// existing objects: controlled by the owner already (adoption is C01's subject)
	for _, o := range objs {
		if !o.exists {
			continue
		}
		oo := o.object()
		e := oo.Object.DeepCopy()
		ns := vFork(o.namespace)
		if ns == "" {
			ns = ownerNS
		}
		e.SetNamespace(ns)
		t := true
		kind := "ObjectSet"
		if !ownerNamespaced {
			kind = "ClusterObjectSet"
		}
		e.SetOwnerReferences([]metav1.OwnerReference{{APIVersion: "package-operator.run/v1alpha1", Kind: kind, Name: "me", UID: "uid-me", Controller: &t}})
		cache.Put(e)
		uncached.Put(e)
	}
	// API contract of the server-side dry run (A2, A3)
	c.Outcome = func(call *verifk8s.Call) error {
		o := byName[call.Key.Name]
		if o == nil || !call.DryRun {
			return nil
		}
		if o.scope == verifk8s.ScopeCluster && call.Key.Namespace != "" {
			return vStatusErr(metav1.StatusReasonBadRequest, "the namespace of the provided object does not match the namespace sent on the request")
		}
		switch o.dryRun {
		case 1:
			return vStatusErr(metav1.StatusReasonForbidden, "forbidden")
		case 2:
			return vStatusErr(metav1.StatusReasonInvalid, "invalid")
		case 3:
			if call.Verb == "patch" {
				return verifk8s.NotFound(call.Key.Name)
			}
		case 4:
			return vStatusErr("", "failed to create typed patch object: bad field")
		case 5:
			return verifk8s.ErrOpaque
		}
		return nil
	}

	pr := ctl.reconciler[2].(*objectSetPhasesReconciler)
	_, err := pr.Reconcile(context.Background(), os)

	// ---- reference: which objects violate preflight
	anyViolation := false
	anyHardError := false
	for _, o := range objs {
		ns := vFork(o.namespace)
		effNS := ns
		if effNS == "" {
			effNS = ownerNS
		}
		v := false
		switch {
		case o.scope == verifk8s.ScopeNoMatch:
			v = true
		case o.scope == verifk8s.ScopeError:
			anyHardError = true
		default:
			if o.presetRef {
				v = true
			}
			if ownerNamespaced && ns != "" && ns != ownerNS {
				v = true
			}
			if o.scope == verifk8s.ScopeCluster && effNS != "" {
				v = true // rejected by the server's dry run (A3)
			}
			if o.scope == verifk8s.ScopeCluster && ownerNamespaced {
				v = true
			}
			switch o.dryRun {
			case 1, 2, 4:
				v = true
			case 5:
				// the dry run itself failed with a non-API error: the pass aborts with that error
				if !(o.scope == verifk8s.ScopeCluster && effNS != "") {
					anyHardError = true
				}
			}
		}
		if v {
			anyViolation = true
		}
	}
	var real []verifk8s.Call
	for _, call := range c.Calls {
		if call.IsRealWrite() {
			real = append(real, call)
		}
	}
	if anyViolation || anyHardError {
		verifrt.Assert(len(real) == 0, "C11/no-write-unless-every-object-passes-preflight")
		verifrt.Assert(err != nil, "C11/violation-is-surfaced")
	}
	if anyViolation && !anyHardError {
		var pe *preflight.Error
		isPE := errors.As(err, &pe)
		verifrt.Assert(isPE, "C11/violation-reported-as-preflight-error")
		if isPE {
			conds := os.GetConditions()
			_, _ = controllers.UpdateObjectSetOrPhaseStatusFromError(context.Background(), os, err, func(context.Context) error { return nil })
			cnd := meta.FindStatusCondition(*conds, corev1alpha1.ObjectSetAvailable)
			verifrt.Assert(cnd != nil && cnd.Status == metav1.ConditionFalse && cnd.Reason == "PreflightError", "C11/available-false-preflight-error")
		}
		verifrt.Reach("violation")
	}
	if !anyViolation && !anyHardError {
		verifrt.Assert(err == nil, "C11/valid-phase-rolls-out")
		verifrt.Assert(len(real) == n, "C11/valid-phase-writes-every-object")
		verifrt.Reach("rolled-out")
	}
	// namespace boundary: a namespaced owner never writes outside its namespace or to cluster-scoped kinds
	if ownerNamespaced {
		for _, call := range real {
			o := byName[call.Key.Name]
			verifrt.Assert(o != nil && call.Key.Namespace == ownerNS && o.scope == verifk8s.ScopeNamespaced, "C11/namespaced-owner-stays-in-namespace")
		}
	}
}

func vFork(s string) string {
	switch s {
	case "":
		return ""
	case "ns":
		return "ns"
	case "other":
		return "other"
	}
	return s
}

// VerifC11Duplicate: an ObjectSet listing the same object twice (in one or two phases) writes nothing.
func VerifC11Duplicate() {
	ctl, c, _, _, _ := vC11Setup(true)
	a := &adapters.ObjectSetAdapter{}
	a.Name, a.Namespace, a.UID = "me", "ns", "uid-me"
	a.Generation, a.Status.Revision = 5, 2
	mk := func(p string) unstructured.Unstructured {
		u := unstructured.Unstructured{Object: map[string]interface{}{}}
		u.SetGroupVersionKind(schema.GroupVersionKind{Group: verifrt.StringFrom(p+".group", "g1", "g2"), Version: verifrt.StringFrom(p+".version", "v1", "v2"),
			Kind: verifrt.StringFrom(p+".kind", "K1", "K2")})
		u.SetName(verifrt.StringFrom(p+".name", "n1", "n2"))
		u.SetNamespace(verifrt.StringFrom(p+".namespace", "", "ns"))
		return u
	}
	o1, o2 := mk("a"), mk("b")
	twoPhases := verifrt.Bool("twoPhases")
	if twoPhases {
		a.Spec.Phases = []corev1alpha1.ObjectSetTemplatePhase{
			{Name: "p0", Objects: []corev1alpha1.ObjectSetObject{{Object: o1}}},
			{Name: "p1", Objects: []corev1alpha1.ObjectSetObject{{Object: o2}}}}
	} else {
		a.Spec.Phases = []corev1alpha1.ObjectSetTemplatePhase{{Name: "p0", Objects: []corev1alpha1.ObjectSetObject{{Object: o1}, {Object: o2}}}}
	}
	// same object = same group, kind, namespace and name (the version does not matter)
	g1, g2 := o1.GroupVersionKind(), o2.GroupVersionKind()
	same := verifrt.And(verifrt.And(g1.Group == g2.Group, g1.Kind == g2.Kind), verifrt.And(o1.GetName() == o2.GetName(), o1.GetNamespace() == o2.GetNamespace()))
	pr := ctl.reconciler[2].(*objectSetPhasesReconciler)
	_, err := pr.Reconcile(context.Background(), a)
	var pe *preflight.Error
	writes := 0
	for _, call := range c.Calls {
		if call.IsWrite() {
			writes++
		}
	}
	verifrt.Assert(verifrt.Implies(same, verifrt.And(writes == 0, errors.As(err, &pe))), "C11/duplicate-object-writes-nothing")
	if writes == 0 && err != nil {
		verifrt.Reach("duplicate")
	}
	if writes > 0 {
		verifrt.Reach("distinct")
	}
}

// VerifC11Teardown: teardown through the real controller wiring never deletes or patches outside the owner's
// namespace or cluster-scoped objects when the owner is namespaced.
func VerifC11Teardown() {
	ctl, c, _, uncached, mapper := vC11Setup(true)
	a := &adapters.ObjectSetAdapter{}
	a.Name, a.Namespace, a.UID = "me", "ns", "uid-me"
	a.Generation, a.Status.Revision = 5, 2
	n := verifrt.IntRange("nObjects", 1, verifrt.Bound("maxObjects", 2))
	ph := corev1alpha1.ObjectSetTemplatePhase{Name: "p"}
	type tobj struct {
		name  string
		ns    string
		scope int
	}
	objs := map[string]*tobj{}
	for k := 0; k < n; k++ {
		p := "obj" + strconv.Itoa(k)
		o := &tobj{name: p}
		o.ns = vFork(verifrt.StringFrom(p+".namespace", "", "ns", "other"))
		o.scope = verifrt.IntRange(p+".scope", 0, 2)
		kind := "Kind" + strconv.Itoa(k)
		mapper.Scope[kind] = o.scope
		u := unstructured.Unstructured{Object: map[string]interface{}{}}
		u.SetAPIVersion("example.com/v1")
		u.SetKind(kind)
		u.SetName(p)
		if o.ns != "" {
			u.SetNamespace(o.ns)
		}
		ph.Objects = append(ph.Objects, corev1alpha1.ObjectSetObject{Object: u})
		objs[p] = o
		// the object exists wherever the phase points (possibly another namespace / cluster scope) and names the
		// ObjectSet as its controller - e.g. placed there by someone with more rights
		for _, ens := range []string{"", "ns", "other"} {
			e := u.DeepCopy()
			e.SetNamespace(ens)
			e.SetUID(metav1Types("uid-" + p))
			t := true
			e.SetOwnerReferences([]metav1.OwnerReference{{APIVersion: "package-operator.run/v1alpha1", Kind: "ObjectSet", Name: "me", UID: "uid-me", Controller: &t}})
			uncached.Put(e)
		}
	}
	a.Spec.Phases = []corev1alpha1.ObjectSetTemplatePhase{ph}
	c.Outcome = func(call *verifk8s.Call) error {
		o := objs[call.Key.Name]
		if o != nil && call.DryRun && o.scope == verifk8s.ScopeCluster && call.Key.Namespace != "" {
			return vStatusErr(metav1.StatusReasonBadRequest, "the namespace of the provided object does not match the namespace sent on the request")
		}
		return nil
	}
	pr := ctl.reconciler[2].(*objectSetPhasesReconciler)
	_, _ = pr.Teardown(context.Background(), a)
	deleted := 0
	for _, call := range c.Calls {
		if !call.IsRealWrite() {
			continue
		}
		o := objs[call.Key.Name]
		verifrt.Assert(o != nil && call.Key.Namespace == "ns" && o.scope == verifk8s.ScopeNamespaced, "C11/teardown-stays-in-namespace")
		deleted++
	}
	if deleted > 0 {
		verifrt.Reach("deleted-in-namespace")
	} else {
		verifrt.Reach("nothing-deleted")
	}
}

func metav1Types(s string) types.UID { return types.UID(s) }

// VerifC04TeardownPreflight: teardown through the real preflight composition. "Done" must mean that the object is
// gone or not controlled any more - a preflight answer alone does not make a controlled object disappear.
func VerifC04TeardownPreflight() {
	ctl, c, _, uncached, mapper := vC11Setup(true)
	a := &adapters.ObjectSetAdapter{}
	a.Name, a.Namespace, a.UID = "me", "ns", "uid-me"
	a.Generation, a.Status.Revision = 5, 2
	u := unstructured.Unstructured{Object: map[string]interface{}{}}
	u.SetAPIVersion("example.com/v1")
	u.SetKind("Kind0")
	u.SetName("obj0")
	a.Spec.Phases = []corev1alpha1.ObjectSetTemplatePhase{{Name: "p", Objects: []corev1alpha1.ObjectSetObject{{Object: u}}}}
	apiGone := verifrt.Bool("api.removed")
	if apiGone {
		mapper.Scope["Kind0"] = verifk8s.ScopeNoMatch
	}
	exists := !apiGone && verifrt.Bool("object.exists")
	if exists {
		e := u.DeepCopy()
		e.SetNamespace("ns")
		e.SetUID("uid-obj0")
		e.SetResourceVersion("3")
		t := true
		e.SetOwnerReferences([]metav1.OwnerReference{{APIVersion: "package-operator.run/v1alpha1", Kind: "ObjectSet", Name: "me", UID: "uid-me", Controller: &t}})
		uncached.Put(e)
	}
	dryRun := verifrt.IntRange("teardown.dryRun", 0, 2) // accepted | Forbidden | Invalid
	c.Outcome = func(call *verifk8s.Call) error {
		if call.DryRun {
			switch dryRun {
			case 1:
				return vStatusErr(metav1.StatusReasonForbidden, "forbidden")
			case 2:
				return vStatusErr(metav1.StatusReasonInvalid, "invalid")
			}
		}
		return nil
	}
	pr := ctl.reconciler[2].(*objectSetPhasesReconciler)
	done, err := pr.Teardown(context.Background(), a)
	deletes := 0
	for _, call := range c.Calls {
		if call.Verb == "delete" && !call.DryRun {
			deletes++
		}
	}
	stillControlled := exists // nothing in this pass removes it except our own delete, which only starts deletion
	verifrt.Assert(!(done && err == nil && stillControlled), "C04/done-only-when-no-object-still-controlled")
	if exists && dryRun == 0 {
		verifrt.Assert(deletes == 1 && !done, "C04/controlled-object-deleted-and-awaited")
		verifrt.Reach("deleted")
	}
	if !exists {
		verifrt.Assert(done && deletes == 0, "C04/absent-object-is-done")
		verifrt.Reach("absent")
	}
}
