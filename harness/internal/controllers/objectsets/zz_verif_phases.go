//go:build verif

package objectsets

import (
	"context"
	"strconv"
	"strings"

	"github.com/go-logr/logr"

	"k8s.io/apimachinery/pkg/api/meta"
	metav1 "k8s.io/apimachinery/pkg/apis/meta/v1"
	"k8s.io/apimachinery/pkg/apis/meta/v1/unstructured"
	"k8s.io/apimachinery/pkg/runtime"
	"sigs.k8s.io/controller-runtime/pkg/client"

	corev1alpha1 "package-operator.run/apis/core/v1alpha1"
	"package-operator.run/internal/adapters"
	"package-operator.run/internal/controllers"
	"package-operator.run/internal/preflight"
	"package-operator.run/internal/verifrt"
	"package-operator.run/pkg/probing"

	"pkg.package-operator.run/boxcutter/ownerhandling"
)

func vScheme() *runtime.Scheme {
	if verifrt.Symbolic() {
		return &runtime.Scheme{}
	}
	s := runtime.NewScheme()
	if err := corev1alpha1.AddToScheme(s); err != nil {
		panic(err)
	}
	return s
}

var vPhaseNames = []string{"p0", "p1", "p2", "p3"}

// vPhaseScript is the arbitrary behaviour of one phase in one pass.
type vPhaseScript struct {
	remote     bool
	outcome    int    // 0 all objects present and probes pass, 1 probe failure, 2 error
	controlled []bool // per object: seen controlled by the ObjectSet in this pass
}

type vPhaseDouble struct {
	os      *adapters.ObjectSetAdapter
	scripts map[string]*vPhaseScript
	calls   []string // "reconcile:p0", "teardown:p1", ...
	tdDone  map[string]bool
	tdErr   map[string]bool
}

func vObj(name string) *unstructured.Unstructured {
	u := &unstructured.Unstructured{Object: map[string]interface{}{}}
	u.SetAPIVersion("v1")
	u.SetKind("ConfigMap")
	u.SetName(name)
	return u
}

func (d *vPhaseDouble) ReconcilePhase(_ context.Context, owner controllers.PhaseObjectOwner, phase corev1alpha1.ObjectSetTemplatePhase,
	_ probing.Prober, _ []controllers.PreviousObjectSet,
) ([]client.Object, controllers.ProbingResult, error) {
	d.calls = append(d.calls, "reconcile:"+phase.Name)
	s := d.scripts[phase.Name]
	if s.outcome == 2 {
		return nil, controllers.ProbingResult{}, errPhase
	}
	var objs []client.Object
	for k, po := range phase.Objects {
		o := po.Object.DeepCopy()
		o.SetNamespace(owner.ClientObject().GetNamespace())
		if s.controlled[k] {
			t := true
			o.SetOwnerReferences([]metav1.OwnerReference{{APIVersion: "package-operator.run/v1alpha1", Kind: "ObjectSet",
				Name: owner.ClientObject().GetName(), UID: owner.ClientObject().GetUID(), Controller: &t}})
		}
		objs = append(objs, o)
	}
	if s.outcome == 1 {
		return objs, controllers.ProbingResult{PhaseName: phase.Name, FailedProbes: []string{"not ready"}}, nil
	}
	return objs, controllers.ProbingResult{}, nil
}

func (d *vPhaseDouble) TeardownPhase(_ context.Context, _ controllers.PhaseObjectOwner, phase corev1alpha1.ObjectSetTemplatePhase) (bool, error) {
	d.calls = append(d.calls, "teardown:"+phase.Name)
	if d.tdErr[phase.Name] {
		return false, errPhase
	}
	return d.tdDone[phase.Name], nil
}

type vRemoteDouble struct{ d *vPhaseDouble }

func (r *vRemoteDouble) Reconcile(_ context.Context, os adapters.ObjectSetAccessor, phase corev1alpha1.ObjectSetTemplatePhase,
) ([]corev1alpha1.ControlledObjectReference, controllers.ProbingResult, error) {
	d := r.d
	d.calls = append(d.calls, "reconcile:"+phase.Name)
	s := d.scripts[phase.Name]
	if s.outcome == 2 {
		return nil, controllers.ProbingResult{}, errPhase
	}
	var refs []corev1alpha1.ControlledObjectReference
	for k, po := range phase.Objects {
		if s.controlled[k] {
			refs = append(refs, corev1alpha1.ControlledObjectReference{Kind: "ConfigMap", Name: po.Object.GetName(),
				Namespace: os.ClientObject().GetNamespace()})
		}
	}
	if s.outcome == 1 {
		return refs, controllers.ProbingResult{PhaseName: phase.Name, FailedProbes: []string{"not ready"}}, nil
	}
	return refs, controllers.ProbingResult{}, nil
}

func (r *vRemoteDouble) Teardown(_ context.Context, _ adapters.ObjectSetAccessor, phase corev1alpha1.ObjectSetTemplatePhase) (bool, error) {
	d := r.d
	d.calls = append(d.calls, "teardown:"+phase.Name)
	if d.tdErr[phase.Name] {
		return false, errPhase
	}
	return d.tdDone[phase.Name], nil
}

type vErr string

func (e vErr) Error() string { return string(e) }

const errPhase = vErr("phase error")

type vFixedClock struct{}

func (vFixedClock) Now() metav1.Time { return metav1.Now() }

// vDrawCondition adds a condition of the given type with arbitrary status and observed generation.
func vDrawCondition(conds *[]metav1.Condition, typ string, label string) (present bool, isTrue bool) {
	k := verifrt.IntRange(label, 0, 2) // absent | True | False
	if k == 0 {
		return false, false
	}
	c := metav1.Condition{Type: typ, Reason: "Pre", ObservedGeneration: verifrt.Int64(label + ".observedGeneration")}
	if k == 1 {
		c.Status = metav1.ConditionTrue
	} else {
		c.Status = metav1.ConditionFalse
	}
	*conds = append(*conds, c)
	return true, k == 1
}

func vNewPhasesReconciler(d *vPhaseDouble) *objectSetPhasesReconciler {
	r := newObjectSetPhasesReconciler(vScheme(), d, &vRemoteDouble{d},
		func(context.Context, controllers.PreviousOwner) ([]controllers.PreviousObjectSet, error) {
			return nil, nil
		},
		preflight.PhasesCheckerList{preflight.NewObjectDuplicate()})
	r.ownerStrategy = ownerhandling.NewNative(r.scheme)
	return r
}

// vBuildObjectSet draws an ObjectSet with 1..maxPhases phases (local or delegated), one or two objects each.
func vBuildObjectSet(d *vPhaseDouble) *adapters.ObjectSetAdapter {
	os := &adapters.ObjectSetAdapter{}
	os.Name, os.Namespace, os.UID = "me", "ns", "uid-me"
	os.Generation = verifrt.Int64("generation")
	os.Status.Revision = 3
	// lifecycle: the phases reconciler also runs for paused ObjectSets (status only)
	os.Spec.LifecycleState = corev1alpha1.ObjectSetLifecycleState(verifrt.StringFrom("lifecycle",
		string(corev1alpha1.ObjectSetLifecycleStateActive), string(corev1alpha1.ObjectSetLifecycleStatePaused)))
	n := verifrt.IntRange("nPhases", 1, verifrt.Bound("maxPhases", 2))
	for k := 0; k < n; k++ {
		name := vPhaseNames[k]
		ph := corev1alpha1.ObjectSetTemplatePhase{Name: name}
		s := &vPhaseScript{}
		s.remote = verifrt.Bool(name + ".delegated")
		if s.remote {
			ph.Class = "default"
		}
		nObj := verifrt.IntRange(name+".nObjects", 1, verifrt.Bound("maxObjects", 1))
		for j := 0; j < nObj; j++ {
			ph.Objects = append(ph.Objects, corev1alpha1.ObjectSetObject{Object: *vObj(name + "-o" + string(rune('0'+j)))})
		}
		os.Spec.Phases = append(os.Spec.Phases, ph)
		d.scripts[name] = s
	}
	d.os = os
	return os
}

// VerifC03C06Phases: one pass of the ObjectSet phases reconciler over arbitrary per-phase behaviour and arbitrary
// pre-existing status. C03: phases strictly in order, each gated on the previous; first failing phase named.
// C06: status never claims more than this pass observed.
func VerifC03C06Phases() {
	d := &vPhaseDouble{scripts: map[string]*vPhaseScript{}}
	os := vBuildObjectSet(d)
	for _, ph := range os.Spec.Phases {
		s := d.scripts[ph.Name]
		s.outcome = verifrt.IntRange(ph.Name+".outcome", 0, 2)
		for range ph.Objects {
			s.controlled = append(s.controlled, verifrt.Bool(ph.Name+".object"+strconv.Itoa(len(s.controlled))+".controlled"))
		}
	}
	// arbitrary pre-existing status
	_, preAvail := vDrawCondition(&os.Status.Conditions, corev1alpha1.ObjectSetAvailable, "pre.Available")
	_ = preAvail
	_, preSucceeded := vDrawCondition(&os.Status.Conditions, corev1alpha1.ObjectSetSucceeded, "pre.Succeeded")
	preInTransition, _ := vDrawCondition(&os.Status.Conditions, corev1alpha1.ObjectSetInTransition, "pre.InTransition")
	_ = preInTransition
	gen := os.Generation

	r := vNewPhasesReconciler(d)
	_, err := r.Reconcile(context.Background(), os)

	// ---- reference model from the statement
	firstBad := -1 // first phase whose outcome is not "all present and probes pass"
	for k, ph := range os.Spec.Phases {
		if d.scripts[ph.Name].outcome != 0 {
			firstBad = k
			break
		}
	}
	// C03: invoked phases are exactly p0..firstBad (or all), in order
	wantCalls := len(os.Spec.Phases)
	if firstBad >= 0 {
		wantCalls = firstBad + 1
	}
	inOrder := len(d.calls) == wantCalls
	for k := 0; k < len(d.calls) && k < wantCalls; k++ {
		if d.calls[k] != "reconcile:"+os.Spec.Phases[k].Name {
			inOrder = false
		}
	}
	verifrt.Assert(inOrder, "C03/phases-in-order-and-gated")

	avail := meta.FindStatusCondition(os.Status.Conditions, corev1alpha1.ObjectSetAvailable)
	succ := meta.FindStatusCondition(os.Status.Conditions, corev1alpha1.ObjectSetSucceeded)
	inTr := meta.FindStatusCondition(os.Status.Conditions, corev1alpha1.ObjectSetInTransition)

	errorCase := firstBad >= 0 && d.scripts[os.Spec.Phases[firstBad].Name].outcome == 2
	verifrt.Assert((err != nil) == errorCase, "C03/error-propagates")
	if errorCase {
		verifrt.Reach("phase-error")
		// nothing may be claimed on an aborted pass: Succeeded must not be lost either
		verifrt.Assert(!preSucceeded || (succ != nil && succ.Status == metav1.ConditionTrue), "C06/succeeded-never-withdrawn")
		return
	}
	allOK := firstBad < 0
	// expected controllerOf: every object seen controlled in an invoked phase, in order
	var want []string
	for k := 0; k < wantCalls; k++ {
		ph := os.Spec.Phases[k]
		for j, po := range ph.Objects {
			if d.scripts[ph.Name].controlled[j] {
				want = append(want, po.Object.GetName())
			}
		}
	}
	got := os.Status.ControllerOf
	same := len(got) == len(want)
	for k := 0; k < len(got) && k < len(want); k++ {
		if got[k].Name != want[k] || got[k].Kind != "ConfigMap" || got[k].Namespace != "ns" {
			same = false
		}
	}
	verifrt.Assert(same, "C06/controllerOf-is-what-was-seen")

	if allOK {
		verifrt.Reach("all-phases-ok")
		verifrt.Assert(avail != nil && avail.Status == metav1.ConditionTrue && avail.ObservedGeneration == gen, "C06/available-true-for-this-generation")
	} else {
		verifrt.Reach("probe-failure")
		named := avail != nil && avail.Status == metav1.ConditionFalse && avail.Reason == "ProbeFailure" &&
			avail.ObservedGeneration == gen && strings.Contains(avail.Message, "\""+os.Spec.Phases[firstBad].Name+"\"")
		verifrt.Assert(named, "C03/first-failing-phase-named")
	}
	// C06: Available=True only if every phase was fine
	verifrt.Assert(!(avail != nil && avail.Status == metav1.ConditionTrue) || allOK, "C06/available-only-if-all-probes-pass")

	// InTransition: cleared only if every object in spec was seen under control
	total := 0
	for _, ph := range os.Spec.Phases {
		total += len(ph.Objects)
	}
	allControlled := len(want) == total
	verifrt.Assert(inTr != nil || allControlled, "C06/inTransition-cleared-only-if-all-controlled")
	verifrt.Assert(inTr == nil || !allControlled, "C06/inTransition-cleared-when-all-controlled")
	// Succeeded: never withdrawn; newly set only while Available and not in transition
	verifrt.Assert(!preSucceeded || (succ != nil && succ.Status == metav1.ConditionTrue), "C06/succeeded-never-withdrawn")
	succNow := succ != nil && succ.Status == metav1.ConditionTrue
	verifrt.Assert(!(succNow && !preSucceeded) || (allOK && allControlled), "C06/succeeded-only-while-available-and-settled")
	if succNow && !preSucceeded {
		verifrt.Reach("succeeded-set")
	}
}

// VerifC04TeardownOrder: teardown visits phases in reverse order and stops at the first phase that is not cleaned up.
func VerifC04TeardownOrder() {
	d := &vPhaseDouble{scripts: map[string]*vPhaseScript{}, tdDone: map[string]bool{}, tdErr: map[string]bool{}}
	os := vBuildObjectSet(d)
	n := len(os.Spec.Phases)
	names := make([]string, n)
	for k, ph := range os.Spec.Phases {
		names[k] = ph.Name
		st := verifrt.IntRange(ph.Name+".teardown", 0, 2) // done | pending | error
		d.tdDone[ph.Name] = st == 0
		d.tdErr[ph.Name] = st == 2
	}
	orphan := verifrt.Bool("orphanFinalizer")
	if orphan {
		os.Finalizers = append(os.Finalizers, "orphan")
	}
	r := vNewPhasesReconciler(d)
	done, err := r.Teardown(context.Background(), os)

	if orphan {
		verifrt.Assert(len(d.calls) == 0 && done && err == nil, "C05/orphan-deletes-nothing")
		verifrt.Reach("orphan")
		return
	}
	// reference: walk from the last phase down; stop at the first that is not done
	want := []string{}
	wantDone, wantErr := true, false
	for k := n - 1; k >= 0; k-- {
		want = append(want, "teardown:"+names[k])
		if d.tdErr[names[k]] {
			wantDone, wantErr = false, true
			break
		}
		if !d.tdDone[names[k]] {
			wantDone = false
			break
		}
	}
	same := len(want) == len(d.calls)
	for k := 0; k < len(want) && k < len(d.calls); k++ {
		if want[k] != d.calls[k] {
			same = false
		}
	}
	verifrt.Assert(same, "C04/reverse-order-and-gated")
	verifrt.Assert(done == wantDone, "C04/done-iff-all-phases-done")
	verifrt.Assert((err != nil) == wantErr, "C04/teardown-error-propagates")
	if done {
		verifrt.Reach("teardown-done")
	} else {
		verifrt.Reach("teardown-pending")
	}
}

func vNoLog() logr.Logger { return logr.Discard() }
