//go:build verif

package objectsets

import (
	"context"
	"encoding/json"
	"strconv"

	corev1 "k8s.io/api/core/v1"
	"k8s.io/apimachinery/pkg/api/equality"
	metav1 "k8s.io/apimachinery/pkg/apis/meta/v1"

	corev1alpha1 "package-operator.run/apis/core/v1alpha1"
	"package-operator.run/internal/adapters"
	"package-operator.run/internal/verifk8s"
	"package-operator.run/internal/verifrt"
)

// VerifC15Remote: a delegated phase is realised through exactly one ObjectSetPhase carrying the phase's content; its
// Available status is trusted only for its current generation; pause is propagated with an optimistic-lock patch.
func VerifC15Remote() {
	cluster := verifrt.Bound("clusterScoped", 0) == 1
	ns := "ns"
	if cluster {
		ns = ""
	}
	c := verifk8s.NewClient()
	c.SpecWriteBumpsGeneration = true
	uncached := verifk8s.NewClient()
	os := &adapters.ObjectSetAdapter{}
	os.Name, os.Namespace, os.UID = "me", "ns", "uid-me"
	os.Generation = 8
	rev := verifrt.Int64("objectSet.revision")
	verifrt.Assume(rev >= 1 && rev < 1<<62)
	os.Status.Revision = rev
	nPrev := verifrt.IntRange("nPrevious", 0, 2)
	for k := 0; k < nPrev; k++ {
		os.Spec.Previous = append(os.Spec.Previous, corev1alpha1.PreviousRevisionReference{Name: "prev" + strconv.Itoa(k)})
	}
	if verifrt.Bool("hasProbe") {
		os.Spec.AvailabilityProbes = []corev1alpha1.ObjectSetProbe{{Probes: []corev1alpha1.Probe{{Condition: &corev1alpha1.ProbeConditionSpec{Type: "Available", Status: "True"}}}}}
	}
	osPaused := verifrt.Bool("objectSet.paused")
	if osPaused {
		os.Spec.LifecycleState = corev1alpha1.ObjectSetLifecycleStatePaused
	}
	os.Labels = map[string]string{"l": "v"}
	ph := corev1alpha1.ObjectSetTemplatePhase{Name: "p", Class: "default"}
	nObj := verifrt.IntRange("nObjects", 0, 2)
	for k := 0; k < nObj; k++ {
		ph.Objects = append(ph.Objects, vNamedCM("o"+strconv.Itoa(k)))
	}
	os.Spec.Phases = []corev1alpha1.ObjectSetTemplatePhase{ph}
	// what an earlier pass recorded in status.remotePhases: nothing, this phase object, or a predecessor of the same
	// name that a third party deleted (the phase object was re-created since and has a new UID)
	recorded := verifrt.IntRange("status.remotePhases", 0, 2)
	otherRecorded := verifrt.Bool("status.remotePhases.other")
	if otherRecorded {
		os.Status.RemotePhases = append(os.Status.RemotePhases, corev1alpha1.RemotePhaseReference{Name: "me-q", UID: "uid-q"})
	}
	switch recorded {
	case 1:
		os.Status.RemotePhases = append(os.Status.RemotePhases, corev1alpha1.RemotePhaseReference{Name: "me-p", UID: "uid-phase"})
	case 2:
		os.Status.RemotePhases = append(os.Status.RemotePhases, corev1alpha1.RemotePhaseReference{Name: "me-p", UID: "uid-phase-deleted"})
	}

	exists := verifrt.Bool("phaseObject.exists")
	var gen, og int64
	availKind := 0
	phasePaused := false
	var reported []corev1alpha1.ControlledObjectReference
	if exists {
		p := &corev1alpha1.ObjectSetPhase{}
		p.Name, p.Namespace, p.UID = "me-p", "ns", "uid-phase"
		p.ResourceVersion = "77"
		gen = verifrt.Int64("phaseObject.generation")
		p.Generation = gen
		availKind = verifrt.IntRange("phaseObject.Available", 0, 2) // absent | True | False
		if availKind > 0 {
			og = verifrt.Int64("phaseObject.Available.observedGeneration")
			st := metav1.ConditionTrue
			if availKind == 2 {
				st = metav1.ConditionFalse
			}
			p.Status.Conditions = []metav1.Condition{{Type: corev1alpha1.ObjectSetPhaseAvailable, Status: st, ObservedGeneration: og, Message: "m"}}
		}
		phasePaused = verifrt.Bool("phaseObject.paused")
		p.Spec.Paused = phasePaused
		if verifrt.Bool("phaseObject.reportsControllerOf") {
			reported = []corev1alpha1.ControlledObjectReference{{Kind: "ConfigMap", Name: "o0", Namespace: "ns"}}
			p.Status.ControllerOf = reported
		}
		if cluster {
			m := verifk8s.ToMap(p)
			delete(m["metadata"].(map[string]interface{}), "namespace")
			cp := &corev1alpha1.ClusterObjectSetPhase{}
			verifk8s.FromMap(m, cp)
			c.Put(cp)
		} else {
			c.Put(p)
		}
	}
	// the cluster-scoped twins (ClusterObjectSet adapter, ClusterObjectSetPhase) carry the same content
	var owner adapters.ObjectSetAccessor = os
	factory := newGenericObjectSetPhase
	var cos *adapters.ClusterObjectSetAdapter
	if cluster {
		m := verifk8s.ToMap(&os.ObjectSet)
		delete(m["metadata"].(map[string]interface{}), "namespace")
		cos = &adapters.ClusterObjectSetAdapter{}
		verifk8s.FromMap(m, &cos.ClusterObjectSet)
		owner, factory = cos, newGenericClusterObjectSetPhase
	}
	r := newObjectSetRemotePhaseReconciler(c, uncached, vScheme(), factory)
	active, res, err := r.Reconcile(context.Background(), owner, ph)
	if cluster {
		os.Status.RemotePhases = cos.Status.RemotePhases
	}

	var creates, patches []verifk8s.Call
	for _, call := range c.Calls {
		switch call.Verb {
		case "create":
			creates = append(creates, call)
		case "patch":
			patches = append(patches, call)
		case "update", "delete":
			verifrt.Assert(false, "C15/remote-reconcile-only-creates-or-patches")
		}
	}
	if !exists {
		verifrt.Assert(len(creates) == 1, "C15/exactly-one-phase-object-created")
		if len(creates) == 1 {
			created := &corev1alpha1.ObjectSetPhase{}
			verifk8s.FromMap(creates[0].Obj, created)
			verifrt.Assert(created.Name == "me-p" && created.Namespace == ns, "C15/phase-object-named-after-objectset-and-phase")
			verifrt.Assert(created.Spec.Revision == rev, "C15/carries-revision")
			verifrt.Assert(equality.Semantic.DeepEqual(created.Spec.Previous, os.Spec.Previous), "C15/carries-previous")
			verifrt.Assert(equality.Semantic.DeepEqual(created.Spec.AvailabilityProbes, os.Spec.AvailabilityProbes), "C15/carries-probes")
			verifrt.Assert(equality.Semantic.DeepEqual(created.Spec.Objects, ph.Objects), "C15/carries-objects")
			verifrt.Assert(created.Spec.Paused == osPaused, "C15/carries-paused")
			verifrt.Assert(created.Labels[corev1alpha1.ObjectSetPhaseClassLabel] == "default", "C15/carries-class")
			ctrlOK := len(created.OwnerReferences) == 1 && created.OwnerReferences[0].UID == "uid-me" &&
				created.OwnerReferences[0].Controller != nil && *created.OwnerReferences[0].Controller
			verifrt.Assert(ctrlOK, "C15/controlled-by-objectset")
		}
		// nothing can be reported by an object that was just created
		verifrt.Assert(err != nil || !res.IsZero(), "C15/new-phase-object-is-not-available")
		verifrt.Reach("created")
		return
	}
	verifrt.Assert(len(creates) == 0, "C15/no-second-phase-object")
	verifrt.Assert(err == nil, "C15/remote-reconcile-succeeds")
	// the ObjectSet records the phase object it delegates to, by its current UID (adoption from a previous revision's
	// delegated phase is decided on this record), and keeps the records of its other phases
	nMine, nOther := 0, 0
	for _, ref := range os.Status.RemotePhases {
		switch ref.Name {
		case "me-p":
			nMine++
			verifrt.Assert(ref.UID == "uid-phase", "C15/remote-phase-recorded-with-current-uid")
		case "me-q":
			nOther++
			verifrt.Assert(ref.UID == "uid-q", "C15/other-remote-phase-records-kept")
		}
	}
	verifrt.Assert(nMine == 1, "C15/remote-phase-recorded-exactly-once")
	verifrt.Assert((nOther == 1) == otherRecorded && nOther <= 1, "C15/other-remote-phase-records-kept")
	// trust only status for the current generation - the generation after this pass's own spec patch, if any
	currentGen := gen
	if phasePaused != osPaused {
		currentGen = gen + 1
	}
	trusted := verifrt.And(availKind == 1, og == currentGen)
	verifrt.Assert(verifrt.Implies(res.IsZero(), trusted), "C15/available-trusted-only-for-current-generation")
	verifrt.Assert(verifrt.Implies(trusted, res.IsZero()), "C15/available-phase-passes")
	verifrt.Assert(len(active) == len(reported), "C15/controllerOf-as-reported-by-phase")
	// pause propagation
	if phasePaused != osPaused {
		ok := len(patches) == 1
		if ok {
			var body map[string]interface{}
			if e := json.Unmarshal(patches[0].Data, &body); e != nil {
				panic(e)
			}
			md, _ := body["metadata"].(map[string]interface{})
			spec, _ := body["spec"].(map[string]interface{})
			ok = md["resourceVersion"] == "77" && spec["paused"] == osPaused && len(spec) == 1
		}
		verifrt.Assert(ok, "C09/pause-propagated-to-phase-object")
		verifrt.Reach("pause-patched")
	} else {
		verifrt.Assert(len(patches) == 0, "C09/no-patch-when-pause-state-agrees")
	}
	if vForkBool(res.IsZero()) {
		verifrt.Reach("available")
	} else {
		verifrt.Reach("not-available")
	}
}

func vForkBool(b bool) bool {
	if b {
		return true
	}
	return false
}

// VerifC15RemoteTeardown: the ObjectSet tears a delegated phase down by deleting the phase object it controls and
// waiting until it is gone.
func VerifC15RemoteTeardown() {
	c := verifk8s.NewClient()
	uncached := verifk8s.NewClient()
	os := &adapters.ObjectSetAdapter{}
	os.Name, os.Namespace, os.UID = "me", "ns", "uid-me"
	ph := corev1alpha1.ObjectSetTemplatePhase{Name: "p", Class: "default"}
	state := verifrt.IntRange("phaseObject", 0, 3) // gone | controlled by me | controlled by other | get error
	nsDeleting := false
	switch state {
	case 1, 2:
		p := &corev1alpha1.ObjectSetPhase{}
		p.Name, p.Namespace, p.UID = "me-p", "ns", "uid-phase"
		p.Finalizers = []string{"x"}
		t := true
		uid := "uid-me"
		if state == 2 {
			uid = "uid-other"
		}
		p.OwnerReferences = []metav1.OwnerReference{{APIVersion: "package-operator.run/v1alpha1", Kind: "ObjectSet", Name: "me", UID: metav1Types(uid), Controller: &t}}
		uncached.Put(p)
		ns := vNamespace("ns")
		nsDeleting = verifrt.Bool("namespace.deleting")
		if nsDeleting {
			now := metav1.Now()
			ns.DeletionTimestamp = &now
		}
		c.Put(ns)
	case 3:
		uncached.GetErr[verifk8s.Key{Kind: "ObjectSetPhase", Namespace: "ns", Name: "me-p"}] = verifk8s.ErrOpaque
	}
	delOutcome := verifrt.IntRange("delete.outcome", 0, 1) // ok | NotFound
	c.Outcome = func(call *verifk8s.Call) error {
		if call.Verb == "delete" && delOutcome == 1 {
			return verifk8s.NotFound(call.Key.Name)
		}
		return nil
	}
	r := newObjectSetRemotePhaseReconciler(c, uncached, vScheme(), newGenericObjectSetPhase)
	done, err := r.Teardown(context.Background(), os, ph)
	deletes := 0
	for _, call := range c.Calls {
		if call.Verb == "delete" {
			deletes++
			verifrt.Assert(call.Key.Name == "me-p", "C15/teardown-deletes-the-phase-object")
		}
	}
	switch state {
	case 0:
		verifrt.Assert(done && err == nil && deletes == 0, "C15/gone-phase-is-done")
		verifrt.Reach("gone")
	case 1:
		if !nsDeleting {
			verifrt.Assert(deletes == 1, "C15/controlled-phase-object-is-deleted")
			verifrt.Assert(done == (delOutcome == 1), "C15/done-only-when-phase-object-gone")
		} else {
			verifrt.Assert(!done, "C15/wait-after-releasing-finalizers")
		}
		verifrt.Reach("deleting")
	case 2:
		verifrt.Assert(done && deletes == 0, "C15/orphaned-phase-object-left-alone")
		verifrt.Reach("orphaned")
	case 3:
		verifrt.Assert(!done && err != nil && deletes == 0, "C15/read-error-is-not-done")
	}
}

func vNamespace(name string) *corev1.Namespace {
	ns := &corev1.Namespace{}
	ns.Name = name
	return ns
}
