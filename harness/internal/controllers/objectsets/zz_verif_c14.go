//go:build verif

package objectsets

import (
	"context"
	"strconv"

	metav1 "k8s.io/apimachinery/pkg/apis/meta/v1"
	"k8s.io/apimachinery/pkg/apis/meta/v1/unstructured"
	"k8s.io/apimachinery/pkg/types"
	ctrl "sigs.k8s.io/controller-runtime"

	corev1alpha1 "package-operator.run/apis/core/v1alpha1"
	"package-operator.run/internal/adapters"
	"package-operator.run/internal/constants"
	"package-operator.run/internal/verifk8s"
	"package-operator.run/internal/verifrt"
)

func vNamedCM(name string) corev1alpha1.ObjectSetObject {
	u := unstructured.Unstructured{Object: map[string]interface{}{}}
	u.SetAPIVersion("v1")
	u.SetKind("ConfigMap")
	u.SetName(name)
	return corev1alpha1.ObjectSetObject{Object: u}
}

// VerifC14Loader: after the slice loader ran, a phase lists its inline objects followed by the objects of its slices,
// in slice order - everything downstream reads only this inlined form.
func VerifC14Loader() {
	c := verifk8s.NewClient()
	a := &adapters.ObjectSetAdapter{}
	a.Name, a.Namespace, a.UID = "me", "ns", "uid-me"
	var want []string
	ph := corev1alpha1.ObjectSetTemplatePhase{Name: "p"}
	nInline := verifrt.IntRange("nInline", 0, 2)
	for k := 0; k < nInline; k++ {
		ph.Objects = append(ph.Objects, vNamedCM("inline"+strconv.Itoa(k)))
		want = append(want, "inline"+strconv.Itoa(k))
	}
	nSlices := verifrt.IntRange("nSlices", 0, verifrt.Bound("maxSlices", 2))
	broken := -1
	needsOwner := make([]bool, nSlices)
	for k := 0; k < nSlices; k++ {
		name := "s" + strconv.Itoa(k)
		ph.Slices = append(ph.Slices, name)
		st := verifrt.IntRange(name+".get", 0, 2) // found+owned | found, not yet owned | missing
		if st == 2 {
			if broken < 0 {
				broken = k
			}
			continue
		}
		sl := &corev1alpha1.ObjectSlice{}
		sl.Name, sl.Namespace = name, "ns"
		n := verifrt.IntRange(name+".nObjects", 1, 2)
		for j := 0; j < n; j++ {
			on := name + "-o" + strconv.Itoa(j)
			sl.Objects = append(sl.Objects, vNamedCM(on))
			if broken < 0 {
				want = append(want, on)
			}
		}
		if st == 0 {
			sl.OwnerReferences = []metav1.OwnerReference{{APIVersion: "package-operator.run/v1alpha1", Kind: "ObjectSet", Name: "me", UID: "uid-me"}}
		} else {
			needsOwner[k] = true
		}
		c.Put(sl)
	}
	a.Spec.Phases = []corev1alpha1.ObjectSetTemplatePhase{ph}
	r := newObjectSliceLoadReconciler(vScheme(), c, adapters.NewObjectSlice)
	_, err := r.Reconcile(context.Background(), a)
	if broken >= 0 {
		verifrt.Assert(err != nil, "C14/missing-slice-stops-rollout")
		verifrt.Reach("missing-slice")
		return
	}
	verifrt.Assert(err == nil, "C14/loader-succeeds")
	got := a.Spec.Phases[0].Objects
	same := len(got) == len(want)
	for k := 0; k < len(got) && k < len(want); k++ {
		if got[k].Object.GetName() != want[k] {
			same = false
		}
	}
	verifrt.Assert(same, "C14/loaded-phase-is-inline-plus-slices-in-order")
	// slices not yet owned by the ObjectSet get an owner reference (keeps them from being collected)
	for k := 0; k < nSlices; k++ {
		upd := false
		for _, call := range c.Calls {
			if call.Verb == "update" && call.Key.Name == "s"+strconv.Itoa(k) {
				upd = true
			}
		}
		verifrt.Assert(upd == needsOwner[k], "C14/slices-get-owner-reference")
	}
	verifrt.Reach("loaded")
}

// vArchiveRun archives an ObjectSet whose single object X exists and is controlled by it, through the real
// controller wiring, and reports the deletes it issued and the Archived status it wrote.
func vArchiveRun(sliced bool, deleting bool) (deletes []string, archived string, finalizerRemoved bool, err error) {
	ctl, c, _, uncached, _ := vC11Setup(true)
	os := &corev1alpha1.ObjectSet{}
	os.Name, os.Namespace, os.UID = "me", "ns", "uid-me"
	os.Generation = 3
	os.Status.Revision = 2
	os.Finalizers = []string{constants.CachedFinalizer}
	if deleting {
		now := metav1.Now()
		os.DeletionTimestamp = &now
	} else {
		os.Spec.LifecycleState = corev1alpha1.ObjectSetLifecycleStateArchived
	}
	x := vNamedCM("x")
	ph := corev1alpha1.ObjectSetTemplatePhase{Name: "p"}
	if sliced {
		sl := &corev1alpha1.ObjectSlice{}
		sl.Name, sl.Namespace = "s0", "ns"
		sl.Objects = []corev1alpha1.ObjectSetObject{x}
		sl.OwnerReferences = []metav1.OwnerReference{{APIVersion: "package-operator.run/v1alpha1", Kind: "ObjectSet", Name: "me", UID: "uid-me"}}
		c.Put(sl)
		ph.Slices = []string{"s0"}
	} else {
		ph.Objects = []corev1alpha1.ObjectSetObject{x}
	}
	os.Spec.Phases = []corev1alpha1.ObjectSetTemplatePhase{ph}
	c.Put(os)
	live := x.Object.DeepCopy()
	live.SetNamespace("ns")
	live.SetUID("uid-x")
	live.SetResourceVersion("9")
	t := true
	live.SetOwnerReferences([]metav1.OwnerReference{{APIVersion: "package-operator.run/v1alpha1", Kind: "ObjectSet", Name: "me", UID: "uid-me", Controller: &t}})
	uncached.Put(live)
	_, err = ctl.Reconcile(context.Background(), ctrl.Request{NamespacedName: types.NamespacedName{Namespace: "ns", Name: "me"}})
	for _, call := range c.Calls {
		if !call.IsRealWrite() {
			continue
		}
		switch call.Verb {
		case "delete":
			deletes = append(deletes, call.Key.Name)
		case "status-update":
			archived, _ = vCondStatus(call.Obj, corev1alpha1.ObjectSetArchived)
		case "patch":
			if call.Key.Name == "me" {
				finalizerRemoved = true
			}
		}
	}
	return
}

// VerifC14Teardown: an ObjectSet that references slices tears down exactly like the same ObjectSet with the objects inline.
func VerifC14Teardown() {
	deleting := verifrt.Bool("deleting") // deleted, or archived
	d1, a1, f1, e1 := vArchiveRun(false, deleting)
	d2, a2, f2, e2 := vArchiveRun(true, deleting)
	verifrt.Assert(len(d1) == 1 && d1[0] == "x" && e1 == nil, "C14/inline-teardown-deletes-the-object")
	same := len(d1) == len(d2)
	for k := 0; k < len(d1) && k < len(d2); k++ {
		if d1[k] != d2[k] {
			same = false
		}
	}
	verifrt.Assert((e1 == nil) == (e2 == nil), "C14/sliced-teardown-same-result")
	verifrt.Assert(same, "C14/sliced-teardown-issues-the-same-deletes")
	verifrt.Assert(a1 == a2, "C14/sliced-teardown-reports-the-same-archived-status")
	verifrt.Assert(f1 == f2, "C14/sliced-teardown-holds-the-finalizer-alike")
	verifrt.Reach("compared")
}
