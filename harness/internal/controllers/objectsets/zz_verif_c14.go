//go:build verif

package objectsets

import (
	"context"
	"strconv"

	metav1 "k8s.io/apimachinery/pkg/apis/meta/v1"
	"k8s.io/apimachinery/pkg/apis/meta/v1/unstructured"
	"k8s.io/apimachinery/pkg/types"
	ctrl "sigs.k8s.io/controller-runtime"

	corev1alpha1 "package-operator.run/apis/core/v1alpha1"
	"package-operator.run/internal/adapters"
	"package-operator.run/internal/constants"
	"package-operator.run/internal/verifk8s"
	"package-operator.run/internal/verifrt"
)

func vNamedCM(name string) corev1alpha1.ObjectSetObject {
	u := unstructured.Unstructured{Object: map[string]interface{}{}}
	u.SetAPIVersion("v1")
	u.SetKind("ConfigMap")
	u.SetName(name)
	return corev1alpha1.ObjectSetObject{Object: u}
}

// VerifC14Loader: after the slice loader ran, a phase lists its inline objects followed by the objects of its slices,
// in slice order - everything downstream reads only this inlined form.
func VerifC14Loader() {
	c := verifk8s.NewClient()
	a := &adapters.ObjectSetAdapter{}
	a.Name, a.Namespace, a.UID = "me", "ns", "uid-me"
	var want []string
	ph := corev1alpha1.ObjectSetTemplatePhase{Name: "p"}
	nInline := verifrt.IntRange("nInline", 0, 2)
	for k := 0; k < nInline; k++ {
		ph.Objects = append(ph.Objects, vNamedCM("inline"+strconv.Itoa(k)))
		want = append(want, "inline"+strconv.Itoa(k))
	}
	nSlices := verifrt.IntRange("nSlices", 0, verifrt.Bound("maxSlices", 2))
	broken := -1
	needsOwner := make([]bool, nSlices)
	for k := 0; k < nSlices; k++ {
		name := "s" + strconv.Itoa(k)
		ph.Slices = append(ph.Slices, name)
		st := verifrt.IntRange(name+".get", 0, 2) // found+owned | found, not yet owned | missing
		if st == 2 {
			if broken < 0 {
				broken = k
			}
			continue
		}
		sl := &corev1alpha1.ObjectSlice{}
		sl.Name, sl.Namespace = name, "ns"
		n := verifrt.IntRange(name+".nObjects", 1, 2)
		for j := 0; j < n; j++ {
			on := name + "-o" + strconv.Itoa(j)
			sl.Objects = append(sl.Objects, vNamedCM(on))
			if broken < 0 {
				want = append(want, on)
			}
		}
		if st == 0 {
			sl.OwnerReferences = []metav1.OwnerReference{{APIVersion: "package-operator.run/v1alpha1", Kind: "ObjectSet", Name: "me", UID: "uid-me"}}
		} else {
			needsOwner[k] = true
		}
		c.Put(sl)
	}
	a.Spec.Phases = []corev1alpha1.ObjectSetTemplatePhase{ph}
	r := newObjectSliceLoadReconciler(vScheme(), c, adapters.NewObjectSlice)
	_, err := r.Reconcile(context.Background(), a)
	if broken >= 0 {
		verifrt.Assert(err != nil, "C14/missing-slice-stops-rollout")
		verifrt.Reach("missing-slice")
		return
	}
	verifrt.Assert(err == nil, "C14/loader-succeeds")
	got := a.Spec.Phases[0].Objects
	same := len(got) == len(want)
	for k := 0; k < len(got) && k < len(want); k++ {
		if got[k].Object.GetName() != want[k] {
			same = false
		}
	}
	verifrt.Assert(same, "C14/loaded-phase-is-inline-plus-slices-in-order")
	// slices not yet owned by the ObjectSet get an owner reference (keeps them from being collected)
	for k := 0; k < nSlices; k++ {
		upd := false
		for _, call := range c.Calls {
			if call.Verb == "update" && call.Key.Name == "s"+strconv.Itoa(k) {
				upd = true
			}
		}
		verifrt.Assert(upd == needsOwner[k], "C14/slices-get-owner-reference")
	}
	verifrt.Reach("loaded")
}

// vArchiveRun tears down (deletes or archives) an ObjectSet through the real controller wiring and reports the deletes
// it issued and the Archived status it wrote. The phase lists the objects x0..x(n-1), each existing and controlled
// by the ObjectSet; sliced: every object sits in a slice of its own, and slice k may already be gone (its object is
// then unknown to the ObjectSet and is not part of the comparison).
func vArchiveRun(sliced bool, deleting bool, present []bool) (deletes []string, archived string, finalizerRemoved bool, err error) {
	ctl, c, _, uncached, _ := vC11Setup(true)
	os := &corev1alpha1.ObjectSet{}
	os.Name, os.Namespace, os.UID = "me", "ns", "uid-me"
	os.Generation = 3
	os.Status.Revision = 2
	os.Finalizers = []string{constants.CachedFinalizer}
	if deleting {
		now := metav1.Now()
		os.DeletionTimestamp = &now
	} else {
		os.Spec.LifecycleState = corev1alpha1.ObjectSetLifecycleStateArchived
	}
	ph := corev1alpha1.ObjectSetTemplatePhase{Name: "p"}
	t := true
	for k, here := range present {
		name := "x" + strconv.Itoa(k)
		x := vNamedCM(name)
		if sliced {
			ph.Slices = append(ph.Slices, "s"+strconv.Itoa(k))
		}
		if !here {
			continue
		}
		if sliced {
			sl := &corev1alpha1.ObjectSlice{}
			sl.Name, sl.Namespace = "s"+strconv.Itoa(k), "ns"
			sl.Objects = []corev1alpha1.ObjectSetObject{x}
			sl.OwnerReferences = []metav1.OwnerReference{{APIVersion: "package-operator.run/v1alpha1", Kind: "ObjectSet", Name: "me", UID: "uid-me"}}
			c.Put(sl)
		} else {
			ph.Objects = append(ph.Objects, x)
		}
		live := x.Object.DeepCopy()
		live.SetNamespace("ns")
		live.SetUID(types.UID("uid-" + name))
		live.SetResourceVersion("9")
		live.SetOwnerReferences([]metav1.OwnerReference{{APIVersion: "package-operator.run/v1alpha1", Kind: "ObjectSet", Name: "me", UID: "uid-me", Controller: &t}})
		uncached.Put(live)
	}
	os.Spec.Phases = []corev1alpha1.ObjectSetTemplatePhase{ph}
	c.Put(os)
	_, err = ctl.Reconcile(context.Background(), ctrl.Request{NamespacedName: types.NamespacedName{Namespace: "ns", Name: "me"}})
	for _, call := range c.Calls {
		if !call.IsRealWrite() {
			continue
		}
		switch call.Verb {
		case "delete":
			deletes = append(deletes, call.Key.Name)
		case "status-update":
			archived, _ = vCondStatus(call.Obj, corev1alpha1.ObjectSetArchived)
		case "patch":
			if call.Key.Name == "me" {
				finalizerRemoved = true
			}
		}
	}
	return
}

// VerifC14Teardown: an ObjectSet that references slices tears down exactly like the same ObjectSet with the objects
// inline - also when some of the referenced slices are already gone.
func VerifC14Teardown() {
	deleting := verifrt.Bool("deleting") // deleted, or archived
	n := verifrt.IntRange("nSlices", 1, verifrt.Bound("maxSlices", 3))
	present := make([]bool, n)
	nPresent := 0
	for k := 0; k < n; k++ {
		present[k] = verifrt.Bool("slice" + strconv.Itoa(k) + ".present")
		if present[k] {
			nPresent++
		}
	}
	d1, a1, f1, e1 := vArchiveRun(false, deleting, present)
	d2, a2, f2, e2 := vArchiveRun(true, deleting, present)
	verifrt.Assert(len(d1) == nPresent && e1 == nil, "C14/inline-teardown-deletes-the-objects")
	if nPresent > 0 {
		verifrt.Assert(!f1 && a1 != "True", "C04/finalizer-held-while-controlled-objects-remain")
	}
	same := len(d1) == len(d2)
	for k := 0; k < len(d1) && k < len(d2); k++ {
		if d1[k] != d2[k] {
			same = false
		}
	}
	verifrt.Assert((e1 == nil) == (e2 == nil), "C14/sliced-teardown-same-result")
	verifrt.Assert(same, "C14/sliced-teardown-issues-the-same-deletes")
	verifrt.Assert(a1 == a2, "C14/sliced-teardown-reports-the-same-archived-status")
	verifrt.Assert(f1 == f2, "C14/sliced-teardown-holds-the-finalizer-alike")
	verifrt.Reach("compared")
}

// VerifC04ControllerOrder: deletion / archival of an ObjectSet with several phases through the real controller wiring
// (controller -> phases reconciler -> phase reconciler), two passes, with every delete answered by the API in one of
// three ways: done (object gone), accepted but the object lingers (foreign finalizer), or 409 Conflict (somebody
// wrote the object between the read and the delete). At the moment of every delete all objects of later phases are
// gone, and the finalizer goes / Archived=True is reported only when nothing controlled is left.
func VerifC04ControllerOrder() {
	ctl, c, _, uncached, _ := vC11Setup(true)
	deleting := verifrt.Bool("deleting")
	nPhases := verifrt.IntRange("nPhases", 2, verifrt.Bound("maxPhases", 3))
	os := &corev1alpha1.ObjectSet{}
	os.Name, os.Namespace, os.UID = "me", "ns", "uid-me"
	os.Generation = 3
	os.Status.Revision = 2
	os.Finalizers = []string{constants.CachedFinalizer}
	if deleting {
		now := metav1.Now()
		os.DeletionTimestamp = &now
	} else {
		os.Spec.LifecycleState = corev1alpha1.ObjectSetLifecycleStateArchived
	}
	t := true
	phaseOf := map[string]int{}
	for p := 0; p < nPhases; p++ {
		name := "x" + strconv.Itoa(p)
		x := vNamedCM(name)
		os.Spec.Phases = append(os.Spec.Phases, corev1alpha1.ObjectSetTemplatePhase{Name: "p" + strconv.Itoa(p), Objects: []corev1alpha1.ObjectSetObject{x}})
		phaseOf[name] = p
		live := x.Object.DeepCopy()
		live.SetNamespace("ns")
		live.SetUID(types.UID("uid-" + name))
		live.SetResourceVersion("9")
		live.SetOwnerReferences([]metav1.OwnerReference{{APIVersion: "package-operator.run/v1alpha1", Kind: "ObjectSet", Name: "me", UID: "uid-me", Controller: &t}})
		uncached.Put(live)
	}
	c.Put(os)
	present := func(name string) bool {
		_, ok := uncached.Objs[verifk8s.Key{Kind: "ConfigMap", Namespace: "ns", Name: name}]
		return ok
	}
	outOfOrder := false
	nDeletes := 0
	finalizerGoneWhileControlled := false
	archivedWhileControlled := false
	anyLeft := func() bool {
		for name := range phaseOf {
			if present(name) {
				return true
			}
		}
		return false
	}
	c.Outcome = func(call *verifk8s.Call) error {
		if call.DryRun {
			return nil
		}
		switch {
		case call.Verb == "delete":
			p, ok := phaseOf[call.Key.Name]
			if !ok {
				return nil
			}
			for name, q := range phaseOf {
				if q > p && present(name) {
					outOfOrder = true
				}
			}
			nDeletes++
			switch verifrt.IntRange("delete"+strconv.Itoa(nDeletes)+".answer", 0, 2) {
			case 0:
				delete(uncached.Objs, verifk8s.Key{Kind: "ConfigMap", Namespace: "ns", Name: call.Key.Name})
			case 2:
				return verifk8s.Conflict(call.Key.Name)
			}
		case call.Verb == "patch" && call.Key.Name == "me":
			if anyLeft() {
				finalizerGoneWhileControlled = true
			}
		case call.Verb == "status-update" && call.Key.Name == "me":
			if st, _ := vCondStatus(call.Obj, corev1alpha1.ObjectSetArchived); st == "True" && anyLeft() {
				archivedWhileControlled = true
			}
		}
		return nil
	}
	req := ctrl.Request{NamespacedName: types.NamespacedName{Namespace: "ns", Name: "me"}}
	for pass := 0; pass < 2 && nDeletes < 4; pass++ {
		_, _ = ctl.Reconcile(context.Background(), req)
	}
	verifrt.Assert(!outOfOrder, "C04/delete-only-after-later-phases-are-gone")
	verifrt.Assert(!finalizerGoneWhileControlled, "C04/finalizer-held-while-controlled-objects-remain")
	verifrt.Assert(!archivedWhileControlled, "C04/archived-only-when-nothing-controlled-is-left")
	verifrt.Assert(nDeletes > 0, "C04/teardown-deletes-controlled-objects")
	verifrt.Reach("torn-down")
}

// vRolloutRun rolls an ObjectSet out through the real controller wiring (finalizer, revision, slice loader, phases)
// in one pass and reports the objects written, status.controllerOf and Available of the last status written. The
// API answers the way the API server does: a status update is answered with the stored object (spec and metadata as
// stored, not as changed in memory). firstPass: status.revision is not yet known and is computed from `previous`.
func vRolloutRun(sliced, firstPass, hasPrevious bool, n int) (written []string, controllerOf []string, available string, revision int64, err error) {
	ctl, c, _, _, _ := vC11Setup(true)
	c.StatusUpdateAnswersStored = true
	c.PatchAnswersStored = true
	os := &corev1alpha1.ObjectSet{}
	os.Name, os.Namespace, os.UID = "me", "ns", "uid-me"
	os.Generation = 3
	os.Finalizers = []string{constants.CachedFinalizer}
	if !firstPass {
		os.Status.Revision = 2
	}
	if hasPrevious {
		prev := &corev1alpha1.ObjectSet{}
		prev.Name, prev.Namespace, prev.UID = "prev", "ns", "uid-prev"
		prev.Status.Revision = 1
		c.Put(prev)
		os.Spec.Previous = []corev1alpha1.PreviousRevisionReference{{Name: "prev"}}
	}
	ph := corev1alpha1.ObjectSetTemplatePhase{Name: "p"}
	for k := 0; k < n; k++ {
		x := vNamedCM("x" + strconv.Itoa(k))
		if !sliced {
			ph.Objects = append(ph.Objects, x)
			continue
		}
		ph.Slices = append(ph.Slices, "s"+strconv.Itoa(k))
		sl := &corev1alpha1.ObjectSlice{}
		sl.Name, sl.Namespace = "s"+strconv.Itoa(k), "ns"
		sl.Objects = []corev1alpha1.ObjectSetObject{x}
		sl.OwnerReferences = []metav1.OwnerReference{{APIVersion: "package-operator.run/v1alpha1", Kind: "ObjectSet", Name: "me", UID: "uid-me"}}
		c.Put(sl)
	}
	os.Spec.Phases = []corev1alpha1.ObjectSetTemplatePhase{ph}
	c.Put(os)
	_, err = ctl.Reconcile(context.Background(), ctrl.Request{NamespacedName: types.NamespacedName{Namespace: "ns", Name: "me"}})
	for _, call := range c.Calls {
		if !call.IsRealWrite() {
			continue
		}
		switch {
		case call.Verb == "status-update" && call.Key.Name == "me":
			available, _ = vCondStatus(call.Obj, corev1alpha1.ObjectSetAvailable)
			controllerOf = nil
			st, _ := call.Obj["status"].(map[string]interface{})
			if l, ok := st["controllerOf"].([]interface{}); ok {
				for _, e := range l {
					m, _ := e.(map[string]interface{})
					name, _ := m["name"].(string)
					controllerOf = append(controllerOf, name)
				}
			}
			switch r := st["revision"].(type) {
			case int64:
				revision = r
			case float64:
				revision = int64(r)
			}
		case call.Key.Kind == "ConfigMap":
			written = append(written, call.Verb+" "+call.Key.Name)
		}
	}
	return
}

func vSameStrings(a, b []string) bool {
	if len(a) != len(b) {
		return false
	}
	for k := range a {
		if a[k] != b[k] {
			return false
		}
	}
	return true
}

// VerifC14Rollout: an ObjectSet whose phase references slices rolls out and reports status exactly like the same
// ObjectSet with the objects inline - in its very first pass (revision still to be determined from `previous`, a
// status write in the middle of the pass) as well as later.
func VerifC14Rollout() {
	n := verifrt.IntRange("nObjects", 1, verifrt.Bound("maxObjects", 2))
	firstPass := verifrt.Bool("firstPass")
	hasPrevious := verifrt.Bool("hasPrevious")
	w1, c1, a1, r1, e1 := vRolloutRun(false, firstPass, hasPrevious, n)
	w2, c2, a2, r2, e2 := vRolloutRun(true, firstPass, hasPrevious, n)
	verifrt.Assert(e1 == nil && len(w1) == n && len(c1) == n && a1 == "True", "C14/inline-rollout-writes-and-reports-every-object")
	want := int64(2)
	if firstPass && !hasPrevious {
		want = 1
	}
	verifrt.Assert(r1 == want, "C02/revision-follows-previous")
	verifrt.Assert((e1 == nil) == (e2 == nil), "C14/sliced-rollout-same-result")
	verifrt.Assert(vSameStrings(w1, w2), "C14/sliced-rollout-writes-the-same-objects")
	verifrt.Assert(vSameStrings(c1, c2), "C14/sliced-rollout-reports-the-same-controllerOf")
	verifrt.Assert(a1 == a2 && r1 == r2, "C14/sliced-rollout-reports-the-same-status")
	if firstPass {
		verifrt.Reach("first-pass")
	} else {
		verifrt.Reach("later-pass")
	}
}
