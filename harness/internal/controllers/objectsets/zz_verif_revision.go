//go:build verif

package objectsets

import (
	"context"
	"strconv"

	corev1alpha1 "package-operator.run/apis/core/v1alpha1"
	"package-operator.run/internal/adapters"
	"package-operator.run/internal/verifk8s"
	"package-operator.run/internal/verifrt"
)

// VerifC02C07Revision: the revision number an ObjectSet gives itself is strictly greater than the revision of every
// declared previous ObjectSet, is assigned once, and is never assigned from incomplete information.
func VerifC02C07Revision() {
	c := verifk8s.NewClient()
	os := &adapters.ObjectSetAdapter{}
	os.Name, os.Namespace = "me", "ns"
	own := verifrt.Int64("status.revision")
	verifrt.Assume(own >= 0 && own < 1<<62)
	os.Status.Revision = own
	n := verifrt.IntRange("nPrevious", 0, verifrt.Bound("maxPrevious", 3))
	revs := make([]int64, n)
	state := make([]int, n)
	for k := 0; k < n; k++ {
		name := "prev" + strconv.Itoa(k)
		os.Spec.Previous = append(os.Spec.Previous, corev1alpha1.PreviousRevisionReference{Name: name})
		state[k] = verifrt.IntRange(name+".get", 0, 2) // found | NotFound | error
		switch state[k] {
		case 0:
			p := &corev1alpha1.ObjectSet{}
			p.Name, p.Namespace = name, "ns"
			revs[k] = verifrt.Int64(name + ".revision")
			verifrt.Assume(revs[k] >= 0 && revs[k] < 1<<62)
			p.Status.Revision = revs[k]
			c.Put(p)
		case 2:
			c.GetErr[verifk8s.Key{Kind: "ObjectSet", Namespace: "ns", Name: name}] = verifk8s.ErrOpaque
		}
	}
	r := &revisionReconciler{scheme: vScheme(), newObjectSet: adapters.NewObjectSet, client: c}
	res, err := r.Reconcile(context.Background(), os)

	var statusWrites int
	for _, call := range c.Calls {
		if call.IsRealWrite() {
			statusWrites++
			verifrt.Assert(call.Verb == "status-update" && call.Key.Name == "me", "C02/only-own-status-written")
		}
	}
	got := os.Status.Revision
	if own != 0 {
		verifrt.Assert(got == own && statusWrites == 0 && err == nil, "C02/revision-assigned-once")
		verifrt.Reach("already-set")
		return
	}
	if n == 0 {
		verifrt.Assert(got == 1 && err == nil, "C07/first-revision-is-one")
		verifrt.Reach("first")
		return
	}
	complete := true
	for k := 0; k < n; k++ {
		if state[k] != 0 {
			complete = false
		}
	}
	if !complete {
		// the loop stops at the first unusable previous revision; nothing may be assigned
		verifrt.Assert(got == 0 && statusWrites == 0, "C02/no-revision-from-incomplete-information")
		verifrt.Reach("incomplete")
		return
	}
	anyZero := false
	for k := 0; k < n; k++ {
		anyZero = verifrt.Or(anyZero, revs[k] == 0)
	}
	greater := true
	for k := 0; k < n; k++ {
		greater = verifrt.And(greater, got > revs[k])
	}
	verifrt.Assert(verifrt.Implies(anyZero, verifrt.And(got == 0, statusWrites == 0)), "C07/waits-for-unreported-previous")
	verifrt.Assert(verifrt.Implies(anyZero, res.RequeueAfter > 0), "C07/requeues-while-waiting")
	verifrt.Assert(verifrt.Implies(verifrt.Not(anyZero), verifrt.And(greater, statusWrites == 1)), "C07/revision-strictly-greater-than-all-previous")
	if got != 0 {
		verifrt.Reach("assigned")
	}
}
