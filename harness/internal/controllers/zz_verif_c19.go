//go:build verif

package controllers

import (
	"context"
	"strconv"

	"k8s.io/apimachinery/pkg/apis/meta/v1/unstructured"
	"k8s.io/apimachinery/pkg/runtime"
	"k8s.io/apimachinery/pkg/types"
	"sigs.k8s.io/controller-runtime/pkg/client"

	corev1alpha1 "package-operator.run/apis/core/v1alpha1"
	"package-operator.run/internal/adapters"
	"package-operator.run/internal/verifrt"
)

type vPrevReader struct {
	found  map[string]bool
	broken map[string]bool
}

func (r *vPrevReader) Get(_ context.Context, key client.ObjectKey, obj client.Object, _ ...client.GetOption) error {
	if r.broken[key.Name] {
		return errOpaque
	}
	if !r.found[key.Name] {
		return vNotFound(key)
	}
	os := obj.(*corev1alpha1.ObjectSet)
	os.Name, os.Namespace, os.UID = key.Name, key.Namespace, types.UID("uid-"+key.Name)
	return nil
}

func (r *vPrevReader) List(context.Context, client.ObjectList, ...client.ListOption) error {
	panic("not used")
}

// VerifC19PreviousLookup: spec.previous may name revisions that no longer exist (history pruning deletes them). The
// looked-up list is handed to the adoption check of an object that exists and is controlled by somebody: whatever
// the combination, the pass ends in a decision or an error, never in a crash, and a revision that still exists is
// recognised as previous owner.
func VerifC19PreviousLookup() {
	n := verifrt.IntRange("nPrevious", 0, verifrt.Bound("maxPrevious", 2))
	owner := &adapters.ObjectSetAdapter{}
	owner.Name, owner.Namespace, owner.UID = "me", vNS, "uid-me"
	owner.Status.Revision = 5
	rd := &vPrevReader{found: map[string]bool{}, broken: map[string]bool{}}
	anyBroken := false
	for k := 1; k <= n; k++ {
		name := "prev" + strconv.Itoa(k)
		owner.Spec.Previous = append(owner.Spec.Previous, corev1alpha1.PreviousRevisionReference{Name: name})
		switch verifrt.IntRange(name+".state", 0, 2) { // exists | garbage collected | read error
		case 0:
			rd.found[name] = true
		case 2:
			rd.broken[name] = true
			anyBroken = true
		}
	}
	lookup := NewPreviousRevisionLookup(vScheme(), func(*runtime.Scheme) PreviousObjectSet { return &adapters.ObjectSetAdapter{} }, rd)
	prev, err := lookup.Lookup(context.Background(), owner)
	verifrt.Assert((err != nil) == anyBroken, "C19/lookup-fails-only-on-read-errors")
	if err != nil {
		verifrt.Reach("lookup-error")
		return
	}
	// an object controlled by prev<c> (or by a stranger), recorded revision 3, collision protection Prevent
	ctrl := verifrt.IntRange("object.controller", 0, 2) // stranger | prev1 | prev2
	ctrlName := []string{"stranger", "prev1", "prev2"}[ctrl]
	obj := &unstructured.Unstructured{Object: map[string]interface{}{}}
	obj.SetAPIVersion("v1")
	obj.SetKind("ConfigMap")
	obj.SetName("obj")
	obj.SetNamespace(vNS)
	obj.SetAnnotations(map[string]string{corev1alpha1.ObjectSetRevisionAnnotation: "3"})
	ref := vRef{APIVersion: pkoAPIVersion, Kind: "ObjectSet", Name: ctrlName, UID: "uid-" + ctrlName, HasCtrl: true, Ctrl: true}
	obj.SetOwnerReferences(append(obj.GetOwnerReferences(), ref.toOwnerReference()))
	checker := &defaultAdoptionChecker{scheme: vScheme(), ownerStrategy: vStrategy(vStrategyNative, vScheme())}
	adopt, cerr := checker.Check(owner, obj, prev, corev1alpha1.CollisionProtectionPrevent)
	want := ctrl > 0 && ctrl <= n && rd.found[ctrlName]
	verifrt.Assert(adopt == want, "C01/adoption-from-an-existing-previous-revision-only")
	verifrt.Assert(want || cerr != nil, "C01/refusal-is-reported")
	verifrt.Reach("decided")
}
