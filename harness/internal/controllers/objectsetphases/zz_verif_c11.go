//go:build verif

package objectsetphases

import (
	"context"
	"strconv"

	"github.com/go-logr/logr"
	apimachineryerrors "k8s.io/apimachinery/pkg/api/errors"
	metav1 "k8s.io/apimachinery/pkg/apis/meta/v1"
	"k8s.io/apimachinery/pkg/apis/meta/v1/unstructured"
	"k8s.io/apimachinery/pkg/types"
	ctrl "sigs.k8s.io/controller-runtime"

	corev1alpha1 "package-operator.run/apis/core/v1alpha1"
	"package-operator.run/internal/constants"
	"package-operator.run/internal/verifk8s"
	"package-operator.run/internal/verifrt"
)

// VerifC11PhaseController: the same-cluster ObjectSetPhase controller, built by its real constructor (real preflight
// composition), never writes outside the phase object's namespace or to cluster-scoped kinds, in rollout and teardown.
func VerifC11PhaseController() {
	c := verifk8s.NewClient()
	cache := verifk8s.NewCache()
	uncached := verifk8s.NewClient()
	mapper := &verifk8s.RESTMapper{Scope: map[string]int{}}
	ctl := NewSameClusterObjectSetPhaseController(logr.Discard(), vScheme(), cache, uncached, "default", c, mapper)

	p := &corev1alpha1.ObjectSetPhase{}
	p.Name, p.Namespace, p.UID = "me-p", "ns", "uid-phase"
	p.ResourceVersion = "5"
	p.Generation = 3
	p.Labels = map[string]string{corev1alpha1.ObjectSetPhaseClassLabel: "default"}
	p.Spec.Revision = 2
	p.Finalizers = []string{constants.CachedFinalizer}
	deleting := verifrt.Bool("deleting")
	if deleting {
		now := metav1.Now()
		p.DeletionTimestamp = &now
	}
	n := verifrt.IntRange("nObjects", 1, verifrt.Bound("maxObjects", 2))
	type pobj struct {
		ns    string
		scope int
	}
	objs := map[string]*pobj{}
	anyViolation := false
	for k := 0; k < n; k++ {
		name := "obj" + strconv.Itoa(k)
		kind := "Kind" + strconv.Itoa(k)
		o := &pobj{}
		o.ns = vForkNS(verifrt.StringFrom(name+".namespace", "", "ns", "other"))
		o.scope = verifrt.IntRange(name+".scope", 0, 1)
		mapper.Scope[kind] = o.scope
		objs[name] = o
		if o.ns == "other" || o.scope == verifk8s.ScopeCluster {
			anyViolation = true
		}
		u := unstructured.Unstructured{Object: map[string]interface{}{}}
		u.SetAPIVersion("example.com/v1")
		u.SetKind(kind)
		u.SetName(name)
		if o.ns != "" {
			u.SetNamespace(o.ns)
		}
		p.Spec.Objects = append(p.Spec.Objects, corev1alpha1.ObjectSetObject{Object: u})
		if deleting {
			// objects exist wherever the phase points and name the phase as controller (native owner references)
			for _, ens := range []string{"", "ns", "other"} {
				e := u.DeepCopy()
				e.SetNamespace(ens)
				e.SetUID(types.UID("uid-" + name))
				t := true
				e.SetOwnerReferences([]metav1.OwnerReference{{APIVersion: "package-operator.run/v1alpha1", Kind: "ObjectSetPhase", Name: "me-p", UID: "uid-phase", Controller: &t}})
				uncached.Put(e)
			}
		}
	}
	c.Put(p)
	c.Outcome = func(call *verifk8s.Call) error {
		o := objs[call.Key.Name]
		if o != nil && call.DryRun && o.scope == verifk8s.ScopeCluster && call.Key.Namespace != "" {
			return &apimachineryerrors.StatusError{ErrStatus: metav1.Status{Status: metav1.StatusFailure, Reason: metav1.StatusReasonBadRequest,
				Message: "the namespace of the provided object does not match the namespace sent on the request"}}
		}
		return nil
	}
	_, _ = ctl.Reconcile(context.Background(), ctrl.Request{NamespacedName: types.NamespacedName{Namespace: "ns", Name: "me-p"}})

	managedWrites := 0
	for _, call := range c.Calls {
		if !call.IsRealWrite() || call.Key.Name == "me-p" {
			continue
		}
		managedWrites++
		o := objs[call.Key.Name]
		verifrt.Assert(o != nil && call.Key.Namespace == "ns" && o.scope == verifk8s.ScopeNamespaced, "C11/same-cluster-phase-stays-in-namespace")
	}
	if !deleting && anyViolation {
		verifrt.Assert(managedWrites == 0, "C11/no-write-unless-every-object-passes-preflight")
		// reported as Available=False/PreflightError in a persisted status
		reported := false
		for _, call := range c.Calls {
			if call.Verb == "status-update" {
				st, reason, _, found := vCondOf(call.Obj, corev1alpha1.ObjectSetPhaseAvailable)
				reported = found && st == "False" && reason == "PreflightError"
			}
		}
		verifrt.Assert(reported, "C11/violation-reported-as-preflight-error")
		verifrt.Reach("violation")
	}
	if !deleting && !anyViolation {
		verifrt.Assert(managedWrites == n, "C11/valid-phase-rolls-out")
		verifrt.Reach("rolled-out")
	}
	if deleting {
		verifrt.Reach("teardown")
	}
}

func vForkNS(s string) string {
	switch s {
	case "":
		return ""
	case "ns":
		return "ns"
	}
	return "other"
}

// VerifC15Handover: the same-cluster ObjectSetPhase controllers as wired by their real constructors (namespaced and
// cluster-scoped) take an object over from the previous revision named in spec.previous - exactly as an in-process
// phase would: the previous revision is looked up as the right kind of object, an object it (or its delegated phase)
// controls with a lower recorded revision is adopted with one apply patch, an object controlled by a stranger is left
// alone and reported as collision.
func VerifC15Handover() {
	cluster := verifrt.Bool("clusterScoped")
	c := verifk8s.NewClient()
	cache := verifk8s.NewCache()
	uncached := verifk8s.NewClient()
	mapper := &verifk8s.RESTMapper{Scope: map[string]int{"ConfigMap": verifk8s.ScopeNamespaced}}
	ns := "ns"
	var ctl *GenericObjectSetPhaseController
	if cluster {
		ns = ""
		ctl = NewSameClusterClusterObjectSetPhaseController(logr.Discard(), vScheme(), cache, uncached, "default", c, mapper)
	} else {
		ctl = NewSameClusterObjectSetPhaseController(logr.Discard(), vScheme(), cache, uncached, "default", c, mapper)
	}
	u := unstructured.Unstructured{Object: map[string]interface{}{}}
	u.SetAPIVersion("v1")
	u.SetKind("ConfigMap")
	u.SetName("cm")
	u.SetNamespace("target-ns")
	if !cluster {
		u.SetNamespace("ns")
	}
	prevKind, phaseKind := "ObjectSet", "ObjectSetPhase"
	if cluster {
		p := &corev1alpha1.ClusterObjectSetPhase{}
		p.Name, p.UID, p.ResourceVersion, p.Generation = "me-p", "uid-phase", "5", 3
		p.Labels = map[string]string{corev1alpha1.ObjectSetPhaseClassLabel: "default"}
		p.Finalizers = []string{constants.CachedFinalizer}
		p.Spec.Revision = 2
		p.Spec.Previous = []corev1alpha1.PreviousRevisionReference{{Name: "rev1"}}
		p.Spec.Objects = []corev1alpha1.ObjectSetObject{{Object: u}}
		c.Put(p)
		prev := &corev1alpha1.ClusterObjectSet{}
		prev.Name, prev.UID = "rev1", "uid-rev1"
		prev.Status.Revision = 1
		c.Put(prev)
		prevKind, phaseKind = "ClusterObjectSet", "ClusterObjectSetPhase"
	} else {
		p := &corev1alpha1.ObjectSetPhase{}
		p.Name, p.Namespace, p.UID, p.ResourceVersion, p.Generation = "me-p", "ns", "uid-phase", "5", 3
		p.Labels = map[string]string{corev1alpha1.ObjectSetPhaseClassLabel: "default"}
		p.Finalizers = []string{constants.CachedFinalizer}
		p.Spec.Revision = 2
		p.Spec.Previous = []corev1alpha1.PreviousRevisionReference{{Name: "rev1"}}
		p.Spec.Objects = []corev1alpha1.ObjectSetObject{{Object: u}}
		c.Put(p)
		prev := &corev1alpha1.ObjectSet{}
		prev.Name, prev.Namespace, prev.UID = "rev1", "ns", "uid-rev1"
		prev.Status.Revision = 1
		c.Put(prev)
	}
	_ = phaseKind
	// the object exists, recorded revision 1, controlled by the previous revision or by a stranger
	byPrevious := verifrt.Bool("object.controlledByPreviousRevision")
	e := u.DeepCopy()
	e.SetUID("uid-cm")
	e.SetResourceVersion("9")
	e.SetAnnotations(map[string]string{corev1alpha1.ObjectSetRevisionAnnotation: "1"})
	e.SetLabels(map[string]string{constants.DynamicCacheLabel: "True"})
	t := true
	if byPrevious {
		e.SetOwnerReferences([]metav1.OwnerReference{{APIVersion: "package-operator.run/v1alpha1", Kind: prevKind, Name: "rev1", UID: "uid-rev1", Controller: &t}})
	} else {
		e.SetOwnerReferences([]metav1.OwnerReference{{APIVersion: "apps/v1", Kind: "Deployment", Name: "stranger", UID: "uid-stranger", Controller: &t}})
	}
	cache.Put(e)
	uncached.Put(e)
	_, err := ctl.Reconcile(context.Background(), ctrl.Request{NamespacedName: types.NamespacedName{Namespace: ns, Name: "me-p"}})
	applies := 0
	collision := false
	for _, call := range c.Calls {
		if call.IsRealWrite() && call.Key.Name == "cm" {
			applies++
		}
		if call.Verb == "status-update" {
			st, reason, _, found := vCondOf(call.Obj, corev1alpha1.ObjectSetPhaseAvailable)
			collision = found && st == "False" && reason == "CollisionDetected"
		}
	}
	if byPrevious {
		verifrt.Assert(err == nil && applies == 1 && !collision, "C15/delegated-phase-adopts-from-previous-revision")
		verifrt.Reach("handover")
	} else {
		verifrt.Assert(applies == 0 && collision, "C15/delegated-phase-refuses-strangers")
		verifrt.Reach("collision")
	}
}
