//go:build verif

package objectsetphases

import (
	"context"
	"encoding/json"
	"strconv"

	"github.com/go-logr/logr"
	"k8s.io/apimachinery/pkg/api/equality"
	metav1 "k8s.io/apimachinery/pkg/apis/meta/v1"
	"k8s.io/apimachinery/pkg/apis/meta/v1/unstructured"
	"k8s.io/apimachinery/pkg/runtime"
	"k8s.io/apimachinery/pkg/types"
	ctrl "sigs.k8s.io/controller-runtime"
	"sigs.k8s.io/controller-runtime/pkg/client"

	corev1alpha1 "package-operator.run/apis/core/v1alpha1"
	"package-operator.run/internal/constants"
	"package-operator.run/internal/controllers"
	"package-operator.run/internal/verifk8s"
	"package-operator.run/internal/verifrt"
	"package-operator.run/pkg/probing"

	"pkg.package-operator.run/boxcutter/ownerhandling"
)

func vScheme() *runtime.Scheme {
	if verifrt.Symbolic() {
		return &runtime.Scheme{}
	}
	s := runtime.NewScheme()
	if err := corev1alpha1.AddToScheme(s); err != nil {
		panic(err)
	}
	return s
}

type vCapture struct {
	reconcileCalls int
	teardownCalls  int
	revision       int64
	paused         bool
	phase          corev1alpha1.ObjectSetTemplatePhase
	previous       []controllers.PreviousObjectSet
	probeNil       bool
	outcome        int // 0 clean, 1 probe failure, 2 error
	controlled     bool
	tdDone, tdErr  bool
}

func (c *vCapture) ReconcilePhase(_ context.Context, owner controllers.PhaseObjectOwner, phase corev1alpha1.ObjectSetTemplatePhase,
	probe probing.Prober, previous []controllers.PreviousObjectSet,
) ([]client.Object, controllers.ProbingResult, error) {
	c.reconcileCalls++
	c.revision, c.paused, c.phase, c.previous, c.probeNil = owner.GetRevision(), owner.IsSpecPaused(), phase, previous, probe == nil
	if c.outcome == 2 {
		return nil, controllers.ProbingResult{}, verifk8s.ErrOpaque
	}
	var objs []client.Object
	for _, po := range phase.Objects {
		o := po.Object.DeepCopy()
		o.SetNamespace("ns")
		if c.controlled {
			t := true
			kind := "ObjectSetPhase"
			if owner.ClientObject().GetNamespace() == "" {
				kind = "ClusterObjectSetPhase"
			}
			o.SetOwnerReferences([]metav1.OwnerReference{{APIVersion: "package-operator.run/v1alpha1", Kind: kind, Name: "me-p", UID: "uid-phase", Controller: &t}})
		}
		objs = append(objs, o)
	}
	if c.outcome == 1 {
		return objs, controllers.ProbingResult{PhaseName: phase.Name, FailedProbes: []string{"not ready"}}, nil
	}
	return objs, controllers.ProbingResult{}, nil
}

func (c *vCapture) TeardownPhase(context.Context, controllers.PhaseObjectOwner, corev1alpha1.ObjectSetTemplatePhase) (bool, error) {
	c.teardownCalls++
	if c.tdErr {
		return false, verifk8s.ErrOpaque
	}
	return c.tdDone, nil
}

type vPrevSet struct{ name string }

func (p *vPrevSet) ClientObject() client.Object {
	o := &corev1alpha1.ObjectSet{}
	o.Name = p.name
	return o
}
func (p *vPrevSet) GetRemotePhases() []corev1alpha1.RemotePhaseReference { return nil }

func vCondOf(obj map[string]interface{}, typ string) (status, reason string, og interface{}, found bool) {
	st, _ := obj["status"].(map[string]interface{})
	conds, _ := st["conditions"].([]interface{})
	for _, c := range conds {
		m, _ := c.(map[string]interface{})
		if m != nil && m["type"] == typ {
			s, _ := m["status"].(string)
			r, _ := m["reason"].(string)
			return s, r, m["observedGeneration"], true
		}
	}
	return "", "", nil, false
}

// VerifC15PhaseController: the ObjectSetPhase controller hands the shared phase reconciler exactly what the phase
// object carries (objects, revision, previous, paused), so a delegated phase behaves like an in-process one; its
// status is computed from what that pass observed.
func VerifC15PhaseController() {
	c := verifk8s.NewClient()
	cache := verifk8s.NewCache()
	p := &corev1alpha1.ObjectSetPhase{}
	p.Name, p.Namespace, p.UID = "me-p", "ns", "uid-phase"
	p.ResourceVersion = "5"
	gen := verifrt.Int64("generation")
	p.Generation = gen
	class := verifrt.StringFrom("class", "default", "other")
	p.Labels = map[string]string{corev1alpha1.ObjectSetPhaseClassLabel: class}
	rev := verifrt.Int64("spec.revision")
	p.Spec.Revision = rev
	paused := verifrt.Bool("spec.paused")
	p.Spec.Paused = paused
	nObj := verifrt.IntRange("nObjects", 0, 2)
	for k := 0; k < nObj; k++ {
		u := unstructured.Unstructured{Object: map[string]interface{}{}}
		u.SetAPIVersion("v1")
		u.SetKind("ConfigMap")
		u.SetName("o" + strconv.Itoa(k))
		p.Spec.Objects = append(p.Spec.Objects, corev1alpha1.ObjectSetObject{Object: u})
	}
	nPrev := verifrt.IntRange("nPrevious", 0, 2)
	for k := 0; k < nPrev; k++ {
		p.Spec.Previous = append(p.Spec.Previous, corev1alpha1.PreviousRevisionReference{Name: "prev" + strconv.Itoa(k)})
	}
	deleting := verifrt.Bool("deleting")
	hasFinalizer := verifrt.Bool("finalizer.cached")
	if hasFinalizer {
		p.Finalizers = []string{constants.CachedFinalizer}
	}
	// deleted with orphan propagation: the API server adds the "orphan" finalizer
	orphan := deleting && verifrt.Bool("finalizer.orphan")
	if orphan {
		p.Finalizers = append(p.Finalizers, "orphan")
	}
	// deleted with foreground propagation: a different finalizer that must not be mistaken for it
	if deleting && !orphan && verifrt.Bool("finalizer.foregroundDeletion") {
		p.Finalizers = append(p.Finalizers, metav1.FinalizerDeleteDependents)
	}
	if deleting {
		now := metav1.Now()
		p.DeletionTimestamp = &now
	}
	// the cluster-scoped twin (ClusterObjectSetPhase and its adapter) carries the same content
	cluster := verifrt.Bound("clusterScoped", 0) == 1
	reqNS := "ns"
	factory := newGenericObjectSetPhase
	if cluster {
		m := verifk8s.ToMap(p)
		delete(m["metadata"].(map[string]interface{}), "namespace")
		cp := &corev1alpha1.ClusterObjectSetPhase{}
		verifk8s.FromMap(m, cp)
		c.Put(cp)
		reqNS = ""
		factory = newGenericClusterObjectSetPhase
	} else {
		c.Put(p)
	}

	cap := &vCapture{outcome: verifrt.IntRange("phase.outcome", 0, 2), controlled: verifrt.Bool("objects.controlled"),
		tdDone: verifrt.Bool("teardown.done"), tdErr: verifrt.Bool("teardown.err")}
	var looked []string
	lookup := func(_ context.Context, owner controllers.PreviousOwner) ([]controllers.PreviousObjectSet, error) {
		var out []controllers.PreviousObjectSet
		for _, pr := range owner.GetPrevious() {
			looked = append(looked, pr.Name)
			out = append(out, &vPrevSet{name: pr.Name})
		}
		return out, nil
	}
	strategy := ownerhandling.NewNative(vScheme())
	pr := newObjectSetPhaseReconciler(vScheme(), cap, lookup, strategy)
	ctl := &GenericObjectSetPhaseController{
		newObjectSetPhase: factory, class: "default", log: logr.Discard(), scheme: vScheme(),
		client: c, dynamicCache: cache, ownerStrategy: strategy, teardownHandler: pr, reconciler: []reconciler{pr},
	}
	_, err := ctl.Reconcile(context.Background(), ctrl.Request{NamespacedName: types.NamespacedName{Namespace: reqNS, Name: "me-p"}})

	var writes, statusUpdates, patches []verifk8s.Call
	for _, call := range c.Calls {
		if call.IsRealWrite() {
			writes = append(writes, call)
			switch call.Verb {
			case "status-update":
				statusUpdates = append(statusUpdates, call)
			case "patch":
				patches = append(patches, call)
			}
		}
	}
	if vForkStr(class) != "default" {
		verifrt.Assert(len(writes) == 0 && cap.reconcileCalls == 0 && cap.teardownCalls == 0 && err == nil, "C15/foreign-class-ignored")
		verifrt.Reach("foreign-class")
		return
	}
	if deleting {
		verifrt.Assert(cap.reconcileCalls == 0, "C04/no-rollout-while-deleting")
		if orphan {
			// nothing of the phase is torn down; the phase object itself is released
			verifrt.Assert(cap.teardownCalls == 0, "C05/orphan-deletes-nothing")
		} else {
			verifrt.Assert((cap.teardownCalls == 1) == hasFinalizer, "C04/teardown-while-finalizer-present")
		}
		tdDone := !hasFinalizer || orphan || (cap.tdDone && !cap.tdErr)
		removed := false
		for _, pt := range patches {
			var body map[string]interface{}
			if e := json.Unmarshal(pt.Data, &body); e != nil {
				panic(e)
			}
			md, _ := body["metadata"].(map[string]interface{})
			fins, _ := md["finalizers"].([]interface{})
			has := false
			for _, f := range fins {
				if f == constants.CachedFinalizer {
					has = true
				}
			}
			if !has {
				removed = true
				verifrt.Assert(md["resourceVersion"] == "5", "C04/finalizer-patch-carries-resourceVersion")
			}
		}
		verifrt.Assert(!removed || tdDone, "C04/phase-finalizer-held-until-teardown-done")
		verifrt.Assert(!(hasFinalizer && tdDone) || removed, "C04/phase-finalizer-released-when-done")
		verifrt.Reach("deleting")
		return
	}
	// active path: the shared phase reconciler gets exactly what the phase object carries
	verifrt.Assert(cap.reconcileCalls == 1, "C15/phase-reconciled-once")
	verifrt.Assert(cap.revision == rev, "C15/same-revision-as-in-process")
	verifrt.Assert(cap.paused == paused, "C15/same-paused-as-in-process")
	verifrt.Assert(equality.Semantic.DeepEqual(cap.phase.Objects, p.Spec.Objects), "C15/same-objects-as-in-process")
	verifrt.Assert(len(cap.phase.Class) == 0, "C15/no-further-delegation")
	okPrev := len(cap.previous) == nPrev && len(looked) == nPrev
	for k := 0; k < nPrev && k < len(looked); k++ {
		if looked[k] != "prev"+strconv.Itoa(k) {
			okPrev = false
		}
	}
	verifrt.Assert(okPrev, "C15/same-previous-as-in-process")
	verifrt.Assert(!cap.probeNil, "C15/probes-parsed")
	if cap.outcome == 2 {
		verifrt.Assert(err != nil, "C15/error-requeues")
		verifrt.Reach("error")
		return
	}
	verifrt.Assert(err == nil && len(statusUpdates) == 1, "C15/status-persisted-once")
	if len(statusUpdates) == 1 {
		su := statusUpdates[0].Obj
		st, reason, _, found := vCondOf(su, corev1alpha1.ObjectSetPhaseAvailable)
		updated := &corev1alpha1.ObjectSetPhase{}
		verifk8s.FromMap(su, updated)
		var avail *metav1.Condition
		for k := range updated.Status.Conditions {
			if updated.Status.Conditions[k].Type == corev1alpha1.ObjectSetPhaseAvailable {
				avail = &updated.Status.Conditions[k]
			}
		}
		if cap.outcome == 0 {
			verifrt.Assert(found && st == "True" && avail != nil && avail.ObservedGeneration == gen, "C06/phase-available-for-this-generation")
			verifrt.Reach("available")
		} else {
			verifrt.Assert(found && st == "False" && reason == "ProbeFailure" && avail != nil && avail.ObservedGeneration == gen, "C06/phase-unavailable-on-probe-failure")
			verifrt.Reach("probe-failure")
		}
		want := 0
		if cap.controlled {
			want = nObj
		}
		verifrt.Assert(len(updated.Status.ControllerOf) == want, "C06/phase-controllerOf-is-what-was-seen")
		pst, _, _, pfound := vCondOf(su, corev1alpha1.ObjectSetPhasePaused)
		verifrt.Assert(paused == (pfound && pst == "True"), "C09/phase-reports-paused")
	}
	if !hasFinalizer {
		verifrt.Assert(len(patches) == 1, "C04/finalizer-added-first")
	}
}

func vForkStr(s string) string {
	if s == "default" {
		return "default"
	}
	return "other"
}
