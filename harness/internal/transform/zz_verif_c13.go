//go:build verif

package transform

import (
	"package-operator.run/internal/verifrt"
)

// functions of the sprig library through which a template could reach the clock, randomness, the process environment,
// the network, the host's file paths or fresh key material
var vImpureSprigFuncs = []string{
	"env", "expandenv", "getHostByName",
	"now", "date", "dateInZone", "date_in_zone", "dateModify", "date_modify", "mustDateModify", "must_date_modify", "ago", "toDate", "mustToDate",
	"unixEpoch", "htmlDate", "htmlDateInZone", "duration", "durationRound",
	"randAlphaNum", "randAlpha", "randAscii", "randNumeric", "randInt", "randBytes", "uuidv4", "shuffle",
	"genPrivateKey", "genCA", "genCAWithKey", "genSelfSignedCert", "genSelfSignedCertWithKey", "genSignedCert", "genSignedCertWithKey",
	"htpasswd", "bcrypt", "derivePassword", "buildCustomCert", "encryptAES", "decryptAES",
	"osBase", "osClean", "osDir", "osExt", "osIsAbs",
}

// VerifC13TemplateFuncs: the function map handed to package and ObjectTemplate templates contains none of the sprig
// functions that reach outside the template's inputs, and does contain the plain helpers.
func VerifC13TemplateFuncs() {
	funcs := SprigFuncs(nil)
	k := verifrt.IntRange("function", 0, len(vImpureSprigFuncs)-1)
	_, present := funcs[vImpureSprigFuncs[k]]
	verifrt.Assert(!present, "C13/templates-cannot-reach-clock-randomness-environment-network-or-host")
	for _, name := range []string{"upper", "indent", "toYAML", "fromYAML", "include", "b64decMap", "default", "dict"} {
		_, ok := funcs[name]
		verifrt.Assert(ok, "C13/plain-template-helpers-available")
	}
	verifrt.Reach("funcs-checked")
}
