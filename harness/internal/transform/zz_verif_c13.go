//go:build verif

package transform

import (
	"package-operator.run/internal/verifrt"
)

// functions of the sprig library through which a template could reach the clock, randomness, the process environment,
// the network, the host's file paths or fresh key material
var vImpureSprigFuncs = []string{
	"env", "expandenv", "getHostByName",
	"now", "date", "dateInZone", "date_in_zone", "dateModify", "date_modify", "mustDateModify", "must_date_modify", "ago", "toDate", "mustToDate",
	"unixEpoch", "htmlDate", "htmlDateInZone", "duration", "durationRound",
	"randAlphaNum", "randAlpha", "randAscii", "randNumeric", "randInt", "randBytes", "uuidv4", "shuffle",
	"genPrivateKey", "genCA", "genCAWithKey", "genSelfSignedCert", "genSelfSignedCertWithKey", "genSignedCert", "genSignedCertWithKey",
	"htpasswd", "bcrypt", "derivePassword", "buildCustomCert", "encryptAES", "decryptAES",
	"osBase", "osClean", "osDir", "osExt", "osIsAbs",
}

// VerifC13TemplateFuncs: the function map handed to package and ObjectTemplate templates contains none of the sprig
// functions that reach outside the template's inputs, and does contain the plain helpers.
func VerifC13TemplateFuncs() {
	funcs := SprigFuncs(nil)
	k := verifrt.IntRange("function", 0, len(vImpureSprigFuncs)-1)
	_, present := funcs[vImpureSprigFuncs[k]]
	verifrt.Assert(!present, "C13/templates-cannot-reach-clock-randomness-environment-network-or-host")
	for _, name := range []string{"upper", "indent", "toYAML", "fromYAML", "include", "b64decMap", "default", "dict"} {
		_, ok := funcs[name]
		verifrt.Assert(ok, "C13/plain-template-helpers-available")
	}
	verifrt.Reach("funcs-checked")
}

// VerifC13B64: the b64decMap template function decodes every string entry of its argument whatever else the map
// holds and whatever order the map is iterated in (a template's output must not depend on map iteration order).
func VerifC13B64() {
	n := verifrt.IntRange("nStrings", 1, verifrt.Bound("maxStrings", 3))
	withOther := verifrt.Bool("withNonStringValue")
	for iter := 0; iter < verifrt.Repeat(); iter++ {
		in := map[string]any{}
		keys := []string{"a", "b", "c", "d"}
		for k := 0; k < n; k++ {
			in[keys[k]] = "dmFsdWU=" // "value"
		}
		if withOther {
			in["number"] = int64(7)
		}
		out, err := base64decodeMap(in)
		verifrt.Assert(err == nil, "C13/b64decMap-accepts-mixed-maps")
		for k := 0; k < n; k++ {
			verifrt.Assert(out[keys[k]] == "value", "C13/b64decMap-decodes-every-string-entry")
		}
	}
	verifrt.Reach("decoded")
}
