//go:build verif

package packagerender

import (
	"context"
	"strconv"
	"strings"

	"k8s.io/apimachinery/pkg/apis/meta/v1/unstructured"

	manifestsv1alpha1 "package-operator.run/apis/manifests/v1alpha1"
	"package-operator.run/internal/apis/manifests"
	"package-operator.run/internal/packages/internal/packagetypes"
	"package-operator.run/internal/verifrt"
)

// VerifC13Collect: turning the rendered objects into the ObjectSet template is deterministic (independent of map
// iteration order) and loses or duplicates no object.
func VerifC13Collect() {
	phaseNames := []string{"p0", "p1", "p2"}
	nPhases := verifrt.IntRange("nPhases", 1, verifrt.Bound("maxPhases", 3))
	nObjects := verifrt.IntRange("nObjects", 0, verifrt.Bound("maxObjects", 3))
	// which phase each object names: one of the manifest phases, or an unknown one
	choice := make([]int, nObjects)
	extraAnn := make([]bool, nObjects)
	for k := 0; k < nObjects; k++ {
		choice[k] = verifrt.IntRange("object"+strconv.Itoa(k)+".phase", 0, nPhases) // nPhases = unknown phase
		extraAnn[k] = verifrt.Bool("object" + strconv.Itoa(k) + ".userAnnotation")
	}
	for iter := 0; iter < verifrt.Repeat(); iter++ {
		man := &manifests.PackageManifest{}
		for k := 0; k < nPhases; k++ {
			man.Spec.Phases = append(man.Spec.Phases, manifests.PackageManifestPhase{Name: phaseNames[k]})
		}
		var objs []unstructured.Unstructured
		for k := 0; k < nObjects; k++ {
			u := unstructured.Unstructured{Object: map[string]interface{}{}}
			u.SetAPIVersion("v1")
			u.SetKind("ConfigMap")
			u.SetName("o" + strconv.Itoa(k))
			ph := "unknown"
			if choice[k] < nPhases {
				ph = phaseNames[choice[k]]
			}
			ann := map[string]string{
				manifestsv1alpha1.PackagePhaseAnnotation:               ph,
				manifestsv1alpha1.PackageCollisionProtectionAnnotation: "IfNoController",
				manifestsv1alpha1.PackageCELConditionAnnotation:        "true",
				manifestsv1alpha1.PackageConditionMapAnnotation:        "Available => my/Available",
			}
			if extraAnn[k] {
				ann["example.com/keep"] = "me"
			}
			u.SetAnnotations(ann)
			objs = append(objs, u)
		}
		spec := RenderObjectSetTemplateSpec(&packagetypes.PackageInstance{Manifest: man, Objects: objs})

		// reference: phases in manifest order, empty ones dropped, objects in input order
		gi := 0
		for p := 0; p < nPhases; p++ {
			var want []int
			for k := 0; k < nObjects; k++ {
				if choice[k] == p {
					want = append(want, k)
				}
			}
			if len(want) == 0 {
				continue
			}
			ok := gi < len(spec.Phases) && spec.Phases[gi].Name == phaseNames[p] && len(spec.Phases[gi].Objects) == len(want)
			verifrt.Assert(ok, "C13/phases-in-manifest-order-objects-conserved")
			if ok {
				for j, k := range want {
					o := spec.Phases[gi].Objects[j]
					verifrt.Assert(o.Object.GetName() == "o"+strconv.Itoa(k), "C13/objects-in-stable-order")
					a := o.Object.GetAnnotations()
					_, c1 := a[manifestsv1alpha1.PackagePhaseAnnotation]
					_, c2 := a[manifestsv1alpha1.PackageCollisionProtectionAnnotation]
					_, c3 := a[manifestsv1alpha1.PackageCELConditionAnnotation]
					_, c4 := a[manifestsv1alpha1.PackageConditionMapAnnotation]
					verifrt.Assert(!c1 && !c2 && !c3 && !c4, "C13/control-annotations-removed")
					if extraAnn[k] {
						verifrt.Assert(a["example.com/keep"] == "me" && len(a) == 1, "C13/user-annotations-kept")
					} else {
						verifrt.Assert(a == nil, "C13/empty-annotations-become-nil")
					}
					verifrt.Assert(string(o.CollisionProtection) == "IfNoController" && len(o.ConditionMappings) == 1, "C13/settings-carried-over")
				}
			}
			gi++
		}
		verifrt.Assert(gi == len(spec.Phases), "C13/no-extra-phase")
	}
	verifrt.Reach("collected")
}

// VerifC13PathOrder: the rendered object list is ordered by path then document, whatever order the file map and the
// intermediate maps are iterated in.
func VerifC13PathOrder() {
	universe := []string{"b.yaml", "a/b.yaml", "a-b.yaml", "a/b/c.yaml", "a.yaml"}
	n := verifrt.IntRange("nFiles", 2, verifrt.Bound("maxFiles", 3))
	for iter := 0; iter < verifrt.Repeat(); iter++ {
		files := packagetypes.Files{"_helpers.yaml": []byte("ignored: true\n"), "README.md": []byte("x")}
		for k := 0; k < n; k++ {
			name := strings.NewReplacer("/", "-", ".", "-").Replace(universe[k])
			files[universe[k]] = []byte("apiVersion: v1\nkind: ConfigMap\nmetadata:\n  name: " + name + "\n  annotations:\n    package-operator.run/phase: deploy\n")
		}
		man := &manifests.PackageManifest{}
		man.Name = "demo"
		man.Spec.Phases = []manifests.PackageManifestPhase{{Name: "deploy"}}
		objs, err := RenderObjectsWithFilter(context.Background(), &packagetypes.Package{Manifest: man, Files: files},
			packagetypes.PackageRenderContext{}, nil)
		verifrt.Assert(err == nil && len(objs) == n, "C13/every-yaml-file-rendered-once")
		// expected order: ascending with '/' sorting before every other character
		want := append([]string{}, universe[:n]...)
		for a := 1; a < len(want); a++ {
			for b := a; b > 0 && strings.ReplaceAll(want[b], "/", "\x00") < strings.ReplaceAll(want[b-1], "/", "\x00"); b-- {
				want[b], want[b-1] = want[b-1], want[b]
			}
		}
		for k := 0; k < n && k < len(objs); k++ {
			name := strings.NewReplacer("/", "-", ".", "-").Replace(want[k])
			verifrt.Assert(objs[k].GetName() == name, "C13/objects-in-path-order")
			verifrt.Assert(objs[k].GetLabels()[manifests.PackageLabel] == "demo", "C13/package-labels-added")
		}
	}
	verifrt.Reach("ordered")
}

// VerifC13Documents: the real YAML splitting and decoding. Files hold one or several documents (some empty, some
// carrying labels of their own, including Package Operator's own label keys); every non-empty document appears
// exactly once, in path-then-document order, with the package labels of *this* package and the user's labels kept.
func VerifC13Documents() {
	universe := []string{"b.yaml", "a/b.yaml", "a.yml"}
	n := verifrt.IntRange("nFiles", 1, verifrt.Bound("maxFiles", 2))
	variant := make([]int, n)
	for k := 0; k < n; k++ {
		variant[k] = verifrt.IntRange("file"+strconv.Itoa(k)+".shape", 0, 5)
	}
	doc := func(name, labels string) string {
		s := "apiVersion: v1\nkind: ConfigMap\nmetadata:\n  name: " + name + "\n"
		if labels != "" {
			s += "  labels:\n" + labels
		}
		return s
	}
	type want struct {
		name  string
		user  string // value of the user's own label "app", if any
		nUser int
	}
	for iter := 0; iter < verifrt.Repeat(); iter++ {
		files := packagetypes.Files{"_helpers.yaml": []byte("ignored: true\n"), "notes.txt": []byte("x")}
		expect := map[string][]want{}
		for k := 0; k < n; k++ {
			p := universe[k]
			id := "f" + strconv.Itoa(k)
			switch variant[k] {
			case 0: // one document
				files[p] = []byte(doc(id+"-0", ""))
				expect[p] = []want{{name: id + "-0"}}
			case 1: // two documents
				files[p] = []byte(doc(id+"-0", "") + "---\n" + doc(id+"-1", ""))
				expect[p] = []want{{name: id + "-0"}, {name: id + "-1"}}
			case 2: // leading separator, empty document in the middle, trailing separator
				files[p] = []byte("---\n" + doc(id+"-0", "") + "---\n\n---\n" + doc(id+"-1", "") + "---\n")
				expect[p] = []want{{name: id + "-0"}, {name: id + "-1"}}
			case 3: // user label kept
				files[p] = []byte(doc(id+"-0", "    app: web\n"))
				expect[p] = []want{{name: id + "-0", user: "web", nUser: 1}}
			case 4: // the document claims to belong to another package / instance
				files[p] = []byte(doc(id+"-0", "    "+manifests.PackageLabel+": other\n    "+manifests.PackageInstanceLabel+": other-instance\n    app: db\n") +
					"---\n" + doc(id+"-1", ""))
				expect[p] = []want{{name: id + "-0", user: "db", nUser: 1}, {name: id + "-1"}}
			case 5: // only comments and separators: no object
				files[p] = []byte("# nothing here\n---\n# still nothing\n")
			}
		}
		man := &manifests.PackageManifest{}
		man.Name = "demo"
		man.Spec.Phases = []manifests.PackageManifestPhase{{Name: "deploy"}}
		tmplCtx := packagetypes.PackageRenderContext{}
		tmplCtx.Package.Name = "demo-instance"
		objs, err := RenderObjectsWithFilter(context.Background(), &packagetypes.Package{Manifest: man, Files: files}, tmplCtx, nil)
		verifrt.Assert(err == nil, "C13/valid-documents-render")
		// expected order: paths ascending with '/' before every other character, then document order
		paths := append([]string{}, universe[:n]...)
		for a := 1; a < len(paths); a++ {
			for b := a; b > 0 && strings.ReplaceAll(paths[b], "/", "\x00") < strings.ReplaceAll(paths[b-1], "/", "\x00"); b-- {
				paths[b], paths[b-1] = paths[b-1], paths[b]
			}
		}
		var all []want
		for _, p := range paths {
			all = append(all, expect[p]...)
		}
		verifrt.Assert(len(objs) == len(all), "C13/every-document-exactly-once")
		for k := 0; k < len(all) && k < len(objs); k++ {
			verifrt.Assert(objs[k].GetName() == all[k].name, "C13/objects-in-path-then-document-order")
			l := objs[k].GetLabels()
			verifrt.Assert(l[manifests.PackageLabel] == "demo" && l[manifests.PackageInstanceLabel] == "demo-instance", "C13/package-labels-added")
			verifrt.Assert(len(l) == 2+all[k].nUser && (all[k].nUser == 0 || l["app"] == all[k].user), "C13/user-labels-kept")
		}
	}
	verifrt.Reach("documents")
}
