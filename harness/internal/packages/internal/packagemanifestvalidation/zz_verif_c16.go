//go:build verif

package packagemanifestvalidation

import (
	"context"
	"strconv"

	corev1alpha1 "package-operator.run/apis/core/v1alpha1"
	"package-operator.run/internal/apis/manifests"
	"package-operator.run/internal/verifrt"
)

// VerifC16ManifestValidation: the structural validation of a PackageManifest against a reference written from the
// documented rules, over manifests with every combination of: name present, scopes present, 0-2 phases with possibly
// equal names, a probe entry with or without probes, 0-2 images with empty / equal / distinct names and empty or set
// references, a platformVersion constraint with missing name, missing / unparsable / valid range, kubeconform test
// settings with or without a version. The manifest is reported invalid iff a rule is broken; it never crashes.
func VerifC16ManifestValidation() {
	m := &manifests.PackageManifest{}
	broken := false
	imagesOnly := verifrt.Bound("imagesOnly", 0) == 1 // every other part fixed to a valid baseline
	pick := func(label string) bool {
		if imagesOnly {
			return true
		}
		return verifrt.Bool(label)
	}
	if pick("name.set") {
		m.Name = "demo"
	} else {
		broken = true
	}
	if pick("scopes.set") {
		m.Spec.Scopes = []manifests.PackageManifestScope{manifests.PackageManifestScopeNamespaced}
	} else {
		broken = true
	}
	nPhases := 1
	if !imagesOnly {
		nPhases = verifrt.IntRange("nPhases", 0, 2)
	}
	if nPhases == 0 {
		broken = true
	}
	var phaseNames []string
	for k := 0; k < nPhases; k++ {
		name := []string{"a", "b"}[verifrt.IntRange("phase"+strconv.Itoa(k)+".name", 0, 1)]
		for _, p := range phaseNames {
			if p == name {
				broken = true
			}
		}
		phaseNames = append(phaseNames, name)
		m.Spec.Phases = append(m.Spec.Phases, manifests.PackageManifestPhase{Name: name})
	}
	if !imagesOnly && verifrt.Bool("probe.present") {
		p := corev1alpha1.ObjectSetProbe{}
		if verifrt.Bool("probe.hasProbes") {
			p.Probes = []corev1alpha1.Probe{{Condition: &corev1alpha1.ProbeConditionSpec{Type: "Available", Status: "True"}}}
		} else {
			broken = true
		}
		m.Spec.AvailabilityProbes = []corev1alpha1.ObjectSetProbe{p}
	}
	nImages := verifrt.IntRange("nImages", 0, verifrt.Bound("maxImages", 1))
	var imageNames []string
	for k := 0; k < nImages; k++ {
		p := "image" + strconv.Itoa(k)
		name := []string{"", "x", "y"}[verifrt.IntRange(p+".name", 0, 2)]
		ref := []string{"", "quay.io/x/y:v1"}[verifrt.IntRange(p+".image", 0, 1)]
		if name == "" || ref == "" {
			broken = true
		}
		for _, n := range imageNames {
			if n == name && name != "" {
				broken = true
			}
		}
		if name != "" {
			imageNames = append(imageNames, name)
		}
		m.Spec.Images = append(m.Spec.Images, manifests.PackageManifestImage{Name: name, Image: ref})
	}
	if !imagesOnly && verifrt.Bool("constraint.platformVersion") {
		pv := &manifests.PackageManifestPlatformVersionConstraint{}
		if verifrt.Bool("constraint.name.set") {
			pv.Name = manifests.Kubernetes
		} else {
			broken = true
		}
		switch verifrt.IntRange("constraint.range", 0, 2) {
		case 0:
			broken = true
		case 1:
			pv.Range = ">=1.25.x"
		case 2:
			pv.Range = "not a range"
			broken = true
		}
		m.Spec.Constraints = []manifests.PackageManifestConstraint{{PlatformVersion: pv}}
	}
	if !imagesOnly && verifrt.Bool("test.kubeconform") {
		m.Test.Kubeconform = &manifests.PackageManifestTestKubeconform{}
		if verifrt.Bool("test.kubeconform.version") {
			m.Test.Kubeconform.KubernetesVersion = "v1.29.0"
		} else {
			broken = true
		}
	}
	errs, err := ValidatePackageManifest(context.Background(), m)
	verifrt.Assert(err == nil, "C16/manifest-validation-does-not-fail-internally")
	verifrt.Assert((len(errs) > 0) == broken, "C16/manifest-invalid-iff-a-rule-is-broken")
	if broken {
		verifrt.Reach("manifest-invalid")
	} else {
		verifrt.Reach("manifest-valid")
	}
}
