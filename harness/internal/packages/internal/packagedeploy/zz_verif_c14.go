//go:build verif

package packagedeploy

import (
	"context"
	"strconv"

	metav1 "k8s.io/apimachinery/pkg/apis/meta/v1"
	"k8s.io/apimachinery/pkg/apis/meta/v1/unstructured"
	"k8s.io/apimachinery/pkg/runtime"
	"k8s.io/apimachinery/pkg/types"
	"sigs.k8s.io/controller-runtime/pkg/client"

	corev1alpha1 "package-operator.run/apis/core/v1alpha1"
	"package-operator.run/internal/adapters"
	"package-operator.run/internal/verifk8s"
	"package-operator.run/internal/verifrt"
)

func vScheme() *runtime.Scheme {
	if verifrt.Symbolic() {
		return &runtime.Scheme{}
	}
	s := runtime.NewScheme()
	if err := corev1alpha1.AddToScheme(s); err != nil {
		panic(err)
	}
	return s
}

func vSizedObject(k int, size int64) corev1alpha1.ObjectSetObject {
	u := unstructured.Unstructured{Object: map[string]interface{}{}}
	u.SetAPIVersion("v1")
	u.SetKind("ConfigMap")
	u.SetName("o" + strconv.Itoa(k))
	verifrt.SetJSONSize(u.Object, size)
	return corev1alpha1.ObjectSetObject{Object: u}
}

// VerifC14Chunk: chunking is lossless and respects the size limit, for arbitrary object sizes.
func VerifC14Chunk() {
	n := verifrt.IntRange("nObjects", 0, verifrt.Bound("maxObjects", 4))
	sizes := make([]int64, n)
	phase := corev1alpha1.ObjectSetTemplatePhase{Name: "p"}
	for k := 0; k < n; k++ {
		sizes[k] = verifrt.Int64("size." + strconv.Itoa(k))
		verifrt.Assume(sizes[k] >= 128 && sizes[k] <= 2*1024*1024)
		phase.Objects = append(phase.Objects, vSizedObject(k, sizes[k]))
	}
	strategy := verifrt.IntRange("strategy", 0, 2) // binpack | each | noop
	var chunker objectChunker
	pkg := &adapters.GenericPackage{}
	switch strategy {
	case 0:
		if verifrt.Bool("strategy.explicit") {
			pkg.Annotations = map[string]string{chunkingStrategyAnnotation: string(chunkingStrategyBinpackNextFit)}
		}
	case 1:
		pkg.Annotations = map[string]string{chunkingStrategyAnnotation: string(chunkingStrategyEachObject)}
	case 2:
		pkg.Annotations = map[string]string{chunkingStrategyAnnotation: string(chunkingStrategyNoOp)}
	}
	chunker = determineChunkingStrategyForPackage(pkg)
	chunks, err := chunker.Chunk(context.Background(), &phase)
	verifrt.Assert(err == nil, "C14/chunking-does-not-fail")
	verifrt.Assert(len(phase.Objects) == n, "C14/chunker-leaves-phase-alone")
	if chunks == nil {
		verifrt.Assert(strategy != 1 || n == 0, "C14/each-object-strategy-always-chunks")
		verifrt.Reach("inline")
		return
	}
	verifrt.Assert(strategy != 2, "C14/noop-never-chunks")
	// in-order concatenation equals the original list
	pos := 0
	for _, ch := range chunks {
		verifrt.Assert(len(ch) > 0, "C14/no-empty-chunk")
		var total int64
		for _, o := range ch {
			ok := pos < n && o.Object.GetName() == "o"+strconv.Itoa(pos)
			verifrt.Assert(ok, "C14/concatenation-equals-original")
			if pos < n {
				total += sizes[pos]
			}
			pos++
		}
		if strategy == 0 && len(ch) > 1 {
			verifrt.Assert(total <= int64(binpackNextFitStrategyChunkLimit), "C14/multi-object-chunk-within-limit")
		}
		if strategy == 1 {
			verifrt.Assert(len(ch) == 1, "C14/each-object-one-per-chunk")
		}
	}
	verifrt.Assert(pos == n, "C14/no-object-lost-or-duplicated")
	if strategy == 0 {
		verifrt.Assert(len(chunks) >= 2, "C14/binpack-chunks-only-on-overflow")
	}
	verifrt.Reach("chunked")
}

func vPlainObject(k int) corev1alpha1.ObjectSetObject {
	u := unstructured.Unstructured{Object: map[string]interface{}{}}
	u.SetAPIVersion("v1")
	u.SetKind("ConfigMap")
	u.SetName("o" + strconv.Itoa(k))
	return corev1alpha1.ObjectSetObject{Object: u}
}

// VerifC14SliceName: a colliding slice name is reused only for identical content controlled by the deployment.
func VerifC14SliceName() {
	c := verifk8s.NewClient()
	dep := &adapters.ObjectDeployment{}
	dep.Name, dep.Namespace, dep.UID = "dep", "ns", "uid-dep"
	r := newDeploymentReconciler(vScheme(), c, adapters.NewObjectDeployment, adapters.NewObjectSlice, adapters.NewObjectSliceList, newGenericObjectSetList)
	objs := []corev1alpha1.ObjectSetObject{vPlainObject(0)}
	slice := adapters.NewObjectSlice(vScheme())
	slice.ClientObject().SetNamespace("ns")
	slice.SetObjects(objs)

	// outcome of the Create per attempt; the conflicting slice of each colliding attempt is arbitrary
	maxAttempts := verifrt.Bound("maxCollisions", 2) + 1
	attempt := 0
	var names []string
	type conflict struct{ mine, equal bool }
	var conflicts []conflict
	c.Outcome = func(call *verifk8s.Call) error {
		if call.Verb != "create" {
			return nil
		}
		attempt++
		names = append(names, call.Key.Name)
		if attempt >= maxAttempts || !verifrt.Bool("create.alreadyExists."+strconv.Itoa(attempt)) {
			return nil
		}
		cf := conflict{mine: verifrt.Bool("conflict.controlledByDeployment." + strconv.Itoa(attempt)), equal: verifrt.Bool("conflict.sameObjects." + strconv.Itoa(attempt))}
		conflicts = append(conflicts, cf)
		ex := &corev1alpha1.ObjectSlice{}
		ex.Name, ex.Namespace = call.Key.Name, "ns"
		if cf.equal {
			ex.Objects = []corev1alpha1.ObjectSetObject{vPlainObject(0)}
		} else {
			ex.Objects = []corev1alpha1.ObjectSetObject{vPlainObject(1)}
		}
		t := true
		uid := "uid-other"
		if cf.mine {
			uid = "uid-dep"
		}
		ex.OwnerReferences = []metav1.OwnerReference{{APIVersion: "package-operator.run/v1alpha1", Kind: "ObjectDeployment", Name: "dep", UID: metav1Types(uid), Controller: &t}}
		c.Put(ex)
		return verifk8s.AlreadyExists(call.Key.Name)
	}
	err := r.reconcileSlice(context.Background(), dep, slice)
	verifrt.Assert(err == nil, "C14/slice-reconcile-succeeds")
	// every real collision (foreign or different content) moved on to a different name
	for k, cf := range conflicts {
		if cf.mine && cf.equal {
			verifrt.Assert(len(names) == k+1, "C14/identical-own-slice-is-reused")
			verifrt.Assert(slice.ClientObject().GetName() == names[k], "C14/identical-own-slice-is-reused")
			verifrt.Reach("reused")
		} else {
			verifrt.Assert(len(names) > k+1, "C14/colliding-name-never-reused-for-different-content")
			for j := 0; j <= k; j++ {
				verifrt.Assert(names[k+1] != names[j], "C14/collision-yields-fresh-name")
			}
			verifrt.Reach("collision")
		}
	}
	if len(conflicts) == 0 {
		verifrt.Reach("created")
	}
}

// VerifC14SliceGC: garbage collection never deletes a slice referenced by the template or by an existing ObjectSet.
func VerifC14SliceGC() {
	universe := []string{"s1", "s2", "s3"}
	c := verifk8s.NewClient()
	dep := &adapters.ObjectDeployment{}
	dep.Name, dep.Namespace, dep.UID = "dep", "ns", "uid-dep"
	inTemplate := map[string]bool{}
	inSets := map[string]bool{}
	existing := map[string]bool{}
	ph := corev1alpha1.ObjectSetTemplatePhase{Name: "p"}
	for _, s := range universe {
		inTemplate[s] = verifrt.Bool("template." + s)
		if inTemplate[s] {
			ph.Slices = append(ph.Slices, s)
		}
	}
	dep.Spec.Template.Spec.Phases = []corev1alpha1.ObjectSetTemplatePhase{ph}
	nSets := verifrt.IntRange("nObjectSets", 0, verifrt.Bound("maxObjectSets", 2))
	var sets []corev1alpha1.ObjectSet
	for k := 0; k < nSets; k++ {
		os := corev1alpha1.ObjectSet{}
		os.Name, os.Namespace = "os"+strconv.Itoa(k), "ns"
		// whatever its lifecycle state, an existing ObjectSet still needs its slices (teardown reads them)
		os.Spec.LifecycleState = corev1alpha1.ObjectSetLifecycleState(verifrt.StringFrom(os.Name+".lifecycle",
			string(corev1alpha1.ObjectSetLifecycleStateActive), string(corev1alpha1.ObjectSetLifecycleStatePaused),
			string(corev1alpha1.ObjectSetLifecycleStateArchived)))
		if verifrt.Bool(os.Name + ".archivedCondition") {
			os.Status.Conditions = []metav1.Condition{{Type: corev1alpha1.ObjectSetArchived, Status: metav1.ConditionTrue}}
		}
		p := corev1alpha1.ObjectSetTemplatePhase{Name: "p"}
		for _, s := range universe {
			if verifrt.Bool(os.Name + "." + s) {
				p.Slices = append(p.Slices, s)
				inSets[s] = true
			}
		}
		os.Spec.Phases = []corev1alpha1.ObjectSetTemplatePhase{p}
		sets = append(sets, os)
	}
	var slices []corev1alpha1.ObjectSlice
	for _, s := range universe {
		existing[s] = verifrt.Bool("exists." + s)
		if existing[s] {
			sl := corev1alpha1.ObjectSlice{}
			sl.Name, sl.Namespace = s, "ns"
			slices = append(slices, sl)
		}
	}
	c.OnList = func(list client.ObjectList, _ *client.ListOptions) error {
		switch l := list.(type) {
		case *corev1alpha1.ObjectSetList:
			l.Items = sets
		case *corev1alpha1.ObjectSliceList:
			l.Items = slices
		default:
			panic("unexpected list type")
		}
		return nil
	}
	r := newDeploymentReconciler(vScheme(), c, adapters.NewObjectDeployment, adapters.NewObjectSlice, adapters.NewObjectSliceList, newGenericObjectSetList)
	err := r.sliceGarbageCollection(context.Background(), dep)
	verifrt.Assert(err == nil, "C14/gc-succeeds")
	deleted := map[string]bool{}
	for _, call := range c.Calls {
		if call.Verb == "delete" {
			deleted[call.Key.Name] = true
		}
	}
	for _, s := range universe {
		referenced := inTemplate[s] || inSets[s]
		verifrt.Assert(!(deleted[s] && referenced), "C14/gc-never-deletes-referenced-slice")
		verifrt.Assert(deleted[s] == (existing[s] && !referenced), "C14/gc-deletes-exactly-unreferenced-slices")
	}
	if len(deleted) > 0 {
		verifrt.Reach("collected")
	} else {
		verifrt.Reach("nothing-collected")
	}
}

func metav1Types(s string) types.UID { return types.UID(s) }

// VerifC14SliceGCWiring: slice garbage collection through the deployers' real constructors, namespaced and
// cluster-scoped: a slice that only an existing (Cluster)ObjectSet of the deployment still references survives, an
// unreferenced one is collected. The API keeps namespaced and cluster-scoped kinds apart, as the real one does.
func VerifC14SliceGCWiring() {
	cluster := verifrt.Bool("clusterScoped")
	c := verifk8s.NewClient()
	var d *PackageDeployer
	var dep adapters.ObjectDeploymentAccessor
	if cluster {
		d = NewClusterPackageDeployer(c, vScheme(), nil)
		x := &adapters.ClusterObjectDeployment{}
		x.Name, x.UID = "dep", "uid-dep"
		dep = x
	} else {
		d = NewPackageDeployer(c, verifk8s.NewClient(), vScheme(), nil)
		x := &adapters.ObjectDeployment{}
		x.Name, x.Namespace, x.UID = "dep", "ns", "uid-dep"
		dep = x
	}
	referencedBySet := verifrt.Bool("slice.s1.referencedByExistingObjectSet")
	c.OnList = func(list client.ObjectList, _ *client.ListOptions) error {
		switch l := list.(type) {
		case *corev1alpha1.ObjectSetList:
			if !cluster && referencedBySet {
				os := corev1alpha1.ObjectSet{}
				os.Name, os.Namespace = "rev1", "ns"
				os.Spec.Phases = []corev1alpha1.ObjectSetTemplatePhase{{Name: "p", Slices: []string{"s1"}}}
				l.Items = append(l.Items, os)
			}
		case *corev1alpha1.ClusterObjectSetList:
			if cluster && referencedBySet {
				os := corev1alpha1.ClusterObjectSet{}
				os.Name = "rev1"
				os.Spec.Phases = []corev1alpha1.ObjectSetTemplatePhase{{Name: "p", Slices: []string{"s1"}}}
				l.Items = append(l.Items, os)
			}
		case *corev1alpha1.ObjectSliceList:
			if !cluster {
				sl := corev1alpha1.ObjectSlice{}
				sl.Name, sl.Namespace = "s1", "ns"
				l.Items = append(l.Items, sl)
			}
		case *corev1alpha1.ClusterObjectSliceList:
			if cluster {
				sl := corev1alpha1.ClusterObjectSlice{}
				sl.Name = "s1"
				l.Items = append(l.Items, sl)
			}
		default:
			panic("unexpected list type")
		}
		return nil
	}
	r := d.deploymentReconciler.(*DeploymentReconciler)
	err := r.sliceGarbageCollection(context.Background(), dep)
	verifrt.Assert(err == nil, "C14/gc-succeeds")
	deleted := false
	for _, call := range c.Calls {
		if call.Verb == "delete" && call.Key.Name == "s1" {
			deleted = true
		}
	}
	verifrt.Assert(deleted == !referencedBySet, "C14/gc-deletes-exactly-unreferenced-slices")
	verifrt.Reach("gc-wired")
}
