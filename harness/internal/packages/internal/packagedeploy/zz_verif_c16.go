//go:build verif

package packagedeploy

import (
	"context"
	"encoding/json"
	"strconv"

	"k8s.io/apiextensions-apiserver/pkg/apis/apiextensions"
	"k8s.io/apimachinery/pkg/api/meta"
	metav1 "k8s.io/apimachinery/pkg/apis/meta/v1"
	"k8s.io/apimachinery/pkg/runtime"
	"sigs.k8s.io/controller-runtime/pkg/client"

	corev1alpha1 "package-operator.run/apis/core/v1alpha1"
	"package-operator.run/internal/adapters"
	"package-operator.run/internal/apis/manifests"
	"package-operator.run/internal/packages/internal/packagetypes"
	"package-operator.run/internal/packages/internal/packagevalidation"
	"package-operator.run/internal/verifk8s"
	"package-operator.run/internal/verifrt"
)

type vLoader struct {
	pkg *packagetypes.Package
	err error
}

func (l *vLoader) LoadComponent(context.Context, *packagetypes.RawPackage, string) (*packagetypes.Package, error) {
	return l.pkg, l.err
}

type vDeployRec struct {
	calls int
	err   error
}

func (d *vDeployRec) Reconcile(context.Context, adapters.ObjectDeploymentAccessor, objectChunker) error {
	d.calls++
	return d.err
}

const vGoodObject = `apiVersion: v1
kind: ConfigMap
metadata:
  name: x
  annotations:
    package-operator.run/phase: deploy
`

const vBadObject = `apiVersion: v1
kind: ConfigMap
metadata:
  name: y
`

// VerifC16Deploy: the ObjectDeployment is reconciled only for packages that load, meet every constraint and render;
// load failures and unmet constraints end up in the Invalid condition of a status that gets persisted.
func VerifC16Deploy() {
	apiPkg := &adapters.GenericPackage{}
	apiPkg.Name, apiPkg.Namespace, apiPkg.UID = "pkg", "ns", "uid-pkg"
	apiPkg.Generation = 4
	apiPkg.Spec.Image = "quay.io/x/y:v1"
	if verifrt.Bool("pre.invalidCondition") {
		apiPkg.Status.Conditions = []metav1.Condition{{Type: corev1alpha1.PackageInvalid, Status: metav1.ConditionTrue, Reason: "LoadError"}}
	}

	loadOK := verifrt.Bool("load.ok")
	renderOK := verifrt.Bool("render.ok")
	man := &manifests.PackageManifest{}
	man.Name = "demo"
	man.Spec.Scopes = []manifests.PackageManifestScope{manifests.PackageManifestScopeNamespaced}
	man.Spec.Phases = []manifests.PackageManifestPhase{{Name: "deploy"}}
	// configuration schema of the manifest and configuration of the Package
	configOK := true
	if verifrt.Bound("withConfig", 0) == 1 {
		schemaRequires := verifrt.Bool("manifest.config.requiresReplicas")
		if schemaRequires {
			man.Spec.Config.OpenAPIV3Schema = &apiextensions.JSONSchemaProps{
				Type:       "object",
				Properties: map[string]apiextensions.JSONSchemaProps{"replicas": {Type: "integer"}},
				Required:   []string{"replicas"},
			}
		}
		hasReplicas := false
		switch verifrt.IntRange("spec.config", 0, 3) { // absent | {} | {replicas: 2} | {other: x}
		case 1:
			raw, _ := json.Marshal(map[string]interface{}{})
			apiPkg.Spec.Config = &runtime.RawExtension{Raw: raw}
		case 2:
			raw, _ := json.Marshal(map[string]interface{}{"replicas": 2})
			apiPkg.Spec.Config = &runtime.RawExtension{Raw: raw}
			hasReplicas = true
		case 3:
			raw, _ := json.Marshal(map[string]interface{}{"other": "x"})
			apiPkg.Spec.Config = &runtime.RawExtension{Raw: raw}
		}
		configOK = !schemaRequires || hasReplicas
	}
	// constraints
	nC := verifrt.IntRange("nConstraints", 0, verifrt.Bound("maxConstraints", 2))
	needsOpenShift, unique := false, false
	needsNewK8s, needsNewOpenShift := false, false
	for k := 0; k < nC; k++ {
		switch verifrt.IntRange("constraint"+strconv.Itoa(k), 0, 4) {
		case 3:
			man.Spec.Constraints = append(man.Spec.Constraints, manifests.PackageManifestConstraint{
				PlatformVersion: &manifests.PackageManifestPlatformVersionConstraint{Name: manifests.Kubernetes, Range: ">=1.25.x"}})
			needsNewK8s = true
		case 4:
			// ignored on clusters that are not OpenShift
			man.Spec.Constraints = append(man.Spec.Constraints, manifests.PackageManifestConstraint{
				PlatformVersion: &manifests.PackageManifestPlatformVersionConstraint{Name: manifests.OpenShift, Range: ">=4.12.x"}})
			needsNewOpenShift = true
		case 0:
			man.Spec.Constraints = append(man.Spec.Constraints, manifests.PackageManifestConstraint{Platform: []manifests.PlatformName{manifests.OpenShift}})
			needsOpenShift = true
		case 1:
			man.Spec.Constraints = append(man.Spec.Constraints, manifests.PackageManifestConstraint{Platform: []manifests.PlatformName{manifests.Kubernetes}})
		case 2:
			man.Spec.Constraints = append(man.Spec.Constraints, manifests.PackageManifestConstraint{UniqueInScope: &manifests.PackageManifestUniqueInScopeConstraint{}})
			unique = true
		}
	}
	k8sNew := true
	if needsNewK8s {
		k8sNew = verifrt.Bool("env.kubernetes.recent")
	}
	env := manifests.PackageEnvironment{Kubernetes: manifests.PackageEnvironmentKubernetes{Version: "1.30.0"}}
	if !k8sNew {
		env.Kubernetes.Version = "1.24.3"
	}
	onOpenShift := verifrt.Bool("env.openshift")
	osNew := true
	if onOpenShift {
		env.OpenShift = &manifests.PackageEnvironmentOpenShift{Version: "4.15.0"}
		if needsNewOpenShift {
			osNew = verifrt.Bool("env.openshift.recent")
			if !osNew {
				env.OpenShift.Version = "4.10.2"
			}
		}
	}
	others := 1
	if unique {
		others = verifrt.IntRange("packagesWithSameManifest", 1, 2)
	}
	uc := verifk8s.NewClient()
	uc.OnList = func(list client.ObjectList, _ *client.ListOptions) error {
		if l, ok := list.(*corev1alpha1.PackageList); ok {
			l.Items = make([]corev1alpha1.Package, others)
		}
		return nil
	}
	files := packagetypes.Files{"cm.yaml": []byte(vGoodObject)}
	if !renderOK {
		files["bad.yaml"] = []byte(vBadObject)
	}
	loader := &vLoader{pkg: &packagetypes.Package{Manifest: man, Files: files}}
	if !loadOK {
		loader.pkg, loader.err = nil, verifk8s.ErrOpaque
	}
	rec := &vDeployRec{}
	if verifrt.Bool("deploymentReconcile.fails") {
		rec.err = verifk8s.ErrOpaque
	}
	d := &PackageDeployer{
		client: verifk8s.NewClient(), uncachedClient: uc, scheme: vScheme(),
		newObjectDeployment: adapters.NewObjectDeployment, structuralLoader: loader, deploymentReconciler: rec,
		packageValidators: packagevalidation.PackageValidatorList{},
	}
	err := d.Deploy(context.Background(), apiPkg, &packagetypes.RawPackage{}, env)

	constraintsMet := !(needsOpenShift && !onOpenShift) && !(unique && others > 1) && !(needsNewK8s && !k8sNew) &&
		!(needsNewOpenShift && onOpenShift && !osNew)
	admissible := loadOK && constraintsMet && configOK && renderOK
	invalid := meta.FindStatusCondition(apiPkg.Status.Conditions, corev1alpha1.PackageInvalid)
	isInvalid := invalid != nil && invalid.Status == metav1.ConditionTrue

	verifrt.Assert(rec.calls <= 1, "C16/at-most-one-deployment-reconcile")
	verifrt.Assert(!(rec.calls > 0) || admissible, "C16/only-admissible-packages-roll-out")
	verifrt.Assert(!admissible || rec.calls == 1, "C16/admissible-packages-roll-out")
	if !loadOK {
		verifrt.Assert(isInvalid && err == nil, "C16/load-failure-reported-in-persisted-invalid-condition")
		verifrt.Reach("load-failure")
	}
	if loadOK && !constraintsMet {
		// err == nil: the controller persists the status only for passes that return no error (checked by VerifC16Controller)
		verifrt.Assert(isInvalid && invalid.ObservedGeneration == 4 && err == nil, "C16/unmet-constraint-reported-in-persisted-invalid-condition")
		verifrt.Reach("constraint-unmet")
	}
	if loadOK && constraintsMet && !configOK {
		verifrt.Assert(isInvalid, "C16/configuration-violating-the-schema-reported-invalid")
		verifrt.Reach("config-invalid")
	}
	if admissible && rec.err == nil {
		verifrt.Assert(err == nil && !isInvalid, "C16/success-clears-invalid")
		verifrt.Reach("deployed")
	}
	if admissible && rec.err != nil {
		verifrt.Assert(err != nil, "C16/deployment-error-is-retried")
	}
}

// VerifC16DeploymentWrite: the write of the ObjectDeployment by the real DeploymentReconciler. Whatever the stored
// ObjectDeployment looks like (absent, or an earlier render plus third-party annotations) and whether or not the
// update runs into a conflict first (somebody else wrote the object in between; the retry re-reads it), the stored
// template ends up equal to the fresh render, desired labels/annotations are set and foreign ones kept.
func VerifC16DeploymentWrite() {
	c := verifk8s.NewClient()
	c.Apply = true
	exists := verifrt.Bool("objectDeployment.exists")
	if exists {
		old := &corev1alpha1.ObjectDeployment{}
		old.Name, old.Namespace, old.UID = "dep", "ns", "uid-dep"
		old.ResourceVersion = "5"
		old.Annotations = map[string]string{"foreign": "keep", "package-operator.run/source-image": "img:v1"}
		old.Labels = map[string]string{"foreign": "keep"}
		old.Spec.Template.Spec.Phases = []corev1alpha1.ObjectSetTemplatePhase{{Name: "p", Objects: []corev1alpha1.ObjectSetObject{vPlainObject(7)}}}
		c.Put(old)
	}
	conflicts := verifrt.IntRange("update.conflicts", 0, 2) // number of updates answered with 409 before one succeeds
	seen := 0
	c.Outcome = func(call *verifk8s.Call) error {
		if call.Verb == "update" && call.Key.Kind == "ObjectDeployment" {
			seen++
			if seen <= conflicts {
				// somebody else wrote the object in between: the stored object changed
				if m, ok := c.Objs[call.Key]; ok {
					md, _ := m["metadata"].(map[string]interface{})
					md["resourceVersion"] = "6"
				}
				return verifk8s.Conflict("dep")
			}
		}
		return nil
	}
	c.OnList = func(list client.ObjectList, _ *client.ListOptions) error { return nil }
	desired := &adapters.ObjectDeployment{}
	desired.Name, desired.Namespace = "dep", "ns"
	desired.Annotations = map[string]string{"package-operator.run/source-image": "img:v2"}
	desired.Labels = map[string]string{"package-operator.run/package": "demo"}
	nObj := verifrt.IntRange("render.objects", 1, 2)
	ph := corev1alpha1.ObjectSetTemplatePhase{Name: "p"}
	for k := 0; k < nObj; k++ {
		ph.Objects = append(ph.Objects, vPlainObject(k))
	}
	desired.Spec.Template.Spec.Phases = []corev1alpha1.ObjectSetTemplatePhase{ph}
	r := newDeploymentReconciler(vScheme(), c, adapters.NewObjectDeployment, adapters.NewObjectSlice, adapters.NewObjectSliceList, newGenericObjectSetList)
	err := r.Reconcile(context.Background(), desired, &NoOpChunker{})
	verifrt.Assert(err == nil, "C16/deployment-write-succeeds-after-conflicts")
	stored := &corev1alpha1.ObjectDeployment{}
	m, ok := c.Objs[verifk8s.Key{Kind: "ObjectDeployment", Namespace: "ns", Name: "dep"}]
	verifrt.Assert(ok, "C16/object-deployment-exists-afterwards")
	if !ok {
		return
	}
	verifk8s.FromMap(m, stored)
	phases := stored.Spec.Template.Spec.Phases
	same := len(phases) == 1 && phases[0].Name == "p" && len(phases[0].Objects) == nObj
	if same {
		for k := 0; k < nObj; k++ {
			same = same && phases[0].Objects[k].Object.GetName() == "o"+strconv.Itoa(k)
		}
	}
	verifrt.Assert(same, "C16/stored-template-equals-fresh-render")
	verifrt.Assert(stored.Annotations["package-operator.run/source-image"] == "img:v2" && stored.Labels["package-operator.run/package"] == "demo",
		"C16/desired-labels-and-annotations-written")
	if exists {
		verifrt.Assert(stored.Annotations["foreign"] == "keep" && stored.Labels["foreign"] == "keep", "C16/foreign-labels-and-annotations-kept")
	}
	verifrt.Reach("deployment-written")
}
