//go:build verif

package packagevalidation

import (
	"context"
	"strconv"

	"package-operator.run/internal/apis/manifests"
	"package-operator.run/internal/packages/internal/packagetypes"
	"package-operator.run/internal/verifrt"
)

// VerifC16PackageValidators: the lock-file consistency validator and the scope validator, alone and joined in a
// validator list, against a reference: a package is accepted iff its lock file lists exactly the manifest's images
// with the same references (no lock file only without images) and the requested scope is one the manifest supports.
func VerifC16PackageValidators() {
	names := []string{"x", "y"}
	refs := []string{"quay.io/a:v1", "quay.io/b:v1"}
	man := &manifests.PackageManifest{}
	man.Name = "demo"
	manImg := map[string]string{}
	nM := verifrt.IntRange("manifest.images", 0, 2)
	for k := 0; k < nM; k++ {
		n := names[k]
		r := refs[verifrt.IntRange("manifest.image"+strconv.Itoa(k)+".ref", 0, 1)]
		manImg[n] = r
		man.Spec.Images = append(man.Spec.Images, manifests.PackageManifestImage{Name: n, Image: r})
	}
	var lock *manifests.PackageManifestLock
	lockImg := map[string]string{}
	if verifrt.Bool("lock.present") {
		lock = &manifests.PackageManifestLock{}
		for k := 0; k < 2; k++ {
			if verifrt.Bool("lock.image" + strconv.Itoa(k) + ".present") {
				r := refs[verifrt.IntRange("lock.image"+strconv.Itoa(k)+".ref", 0, 1)]
				lockImg[names[k]] = r
				lock.Spec.Images = append(lock.Spec.Images, manifests.PackageManifestLockImage{Name: names[k], Image: r, Digest: "sha256:00"})
			}
		}
	}
	scopes := [][]manifests.PackageManifestScope{
		{manifests.PackageManifestScopeNamespaced}, {manifests.PackageManifestScopeCluster},
		{manifests.PackageManifestScopeNamespaced, manifests.PackageManifestScopeCluster},
	}
	sc := verifrt.IntRange("manifest.scopes", 0, 2)
	man.Spec.Scopes = scopes[sc]
	wantCluster := verifrt.Bool("install.clusterScope")
	pkg := &packagetypes.Package{Manifest: man, ManifestLock: lock}

	lockOK := false
	if lock == nil {
		lockOK = len(manImg) == 0
	} else {
		lockOK = len(manImg) == len(lockImg)
		for n, r := range manImg {
			if lr, ok := lockImg[n]; !ok || lr != r {
				lockOK = false
			}
		}
	}
	scopeOK := sc == 2 || (sc == 1) == wantCluster
	scope := PackageScopeValidator(manifests.PackageManifestScopeNamespaced)
	if wantCluster {
		scope = PackageScopeValidator(manifests.PackageManifestScopeCluster)
	}
	ctx := context.Background()
	e1 := (&LockfileConsistencyValidator{}).ValidatePackage(ctx, pkg)
	e2 := scope.ValidatePackage(ctx, pkg)
	e3 := PackageValidatorList{&LockfileConsistencyValidator{}, scope}.ValidatePackage(ctx, pkg)
	verifrt.Assert((e1 == nil) == lockOK, "C16/lockfile-consistent-iff-same-images")
	verifrt.Assert((e2 == nil) == scopeOK, "C16/scope-supported-iff-listed")
	verifrt.Assert((e3 == nil) == (lockOK && scopeOK), "C16/validator-list-fails-iff-any-validator-fails")
	if e3 == nil {
		verifrt.Reach("package-accepted")
	} else {
		verifrt.Reach("package-rejected")
	}
}
