//go:build verif

package packagevalidation

import (
	"context"

	"k8s.io/apimachinery/pkg/apis/meta/v1/unstructured"

	manifestsv1alpha1 "package-operator.run/apis/manifests/v1alpha1"
	"package-operator.run/internal/apis/manifests"
	"package-operator.run/internal/packages/internal/packagerender"
	"package-operator.run/internal/packages/internal/packagetypes"
	"package-operator.run/internal/verifrt"
)

// VerifC19ConditionMap: a package object with arbitrary control annotations is either rejected by object validation
// or turned into an ObjectSet template without a panic.
func VerifC19ConditionMap() {
	u := unstructured.Unstructured{Object: map[string]interface{}{}}
	u.SetAPIVersion("v1")
	u.SetKind("ConfigMap")
	u.SetName("x")
	ann := map[string]string{manifestsv1alpha1.PackagePhaseAnnotation: verifrt.StringFrom("phase", "deploy", "unknown", "", "Deploy")}
	if verifrt.Bool("hasConditionMap") {
		ann[manifestsv1alpha1.PackageConditionMapAnnotation] = verifrt.StringFrom("conditionMap",
			"Available => my/Available", "", "a", "=>b", "a=>", "a=>b\nc", "a=>b\n\nc=>d", " ", "=>",
			"a=>b\n  \nc=>d", "a=>b\n\t\nc=>d", "a=>b\n \n", "\n \na=>b", "a => b \n c => d", "a=>b=>c", "=>\n=>")
	}
	if verifrt.Bool("hasCollisionProtection") {
		ann[manifestsv1alpha1.PackageCollisionProtectionAnnotation] = verifrt.StringFrom("collisionProtection", "Prevent", "bogus", "")
	}
	u.SetAnnotations(ann)
	man := &manifests.PackageManifest{Spec: manifests.PackageManifestSpec{Phases: []manifests.PackageManifestPhase{{Name: "deploy"}}}}
	rejected := false
	placed := 0
	msg := verifrt.PanicMessage(func() {
		err := DefaultObjectValidators.ValidateObjects(context.Background(), man, map[string][]unstructured.Unstructured{"x.yaml": {u}})
		if err != nil {
			rejected = true
			return
		}
		inst := &packagetypes.PackageInstance{Manifest: man, Objects: []unstructured.Unstructured{u}}
		spec := packagerender.RenderObjectSetTemplateSpec(inst)
		for _, ph := range spec.Phases {
			for _, o := range ph.Objects {
				if o.Object.GetName() == "x" && ph.Name == "deploy" {
					placed++
				}
			}
		}
	})
	verifrt.Assert(msg == "", "C19/validate-then-render-never-panics")
	// C13: what passes validation appears exactly once, in the phase its annotation names
	verifrt.Assert(rejected || placed == 1, "C13/validated-object-appears-exactly-once-in-its-phase")
	if rejected {
		verifrt.Reach("rejected")
	} else {
		verifrt.Reach("rendered")
	}
}
