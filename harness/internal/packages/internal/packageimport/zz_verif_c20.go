//go:build verif

package packageimport

import (
	"context"
	"errors"
	"strconv"

	"github.com/google/go-containerregistry/pkg/crane"
	"k8s.io/apimachinery/pkg/types"
	"sigs.k8s.io/controller-runtime/pkg/client"

	"package-operator.run/internal/packages/internal/packagetypes"
	"package-operator.run/internal/verifrt"
)

var errPull = errors.New("registry unavailable")

// VerifC20Pull: concurrent Pull calls under every interleaving at lock/channel granularity.
func VerifC20Pull() {
	n := verifrt.Bound("callers", 2)
	images := make([]string, n)
	callers := map[string]int{}
	for k := 0; k < n; k++ {
		images[k] = []string{"img-a", "img-b"}[verifrt.IntRange("caller"+strconv.Itoa(k)+".image", 0, 1)]
		callers[images[k]]++
	}
	fails := verifrt.Bool("pull.fails")
	for iter := 0; iter < verifrt.Repeat(); iter++ {
		inFlight := map[string]int{}
		pulls := map[string]int{}
		overlap := false
		rm := &RequestManager{inFlight: map[string][]chan<- response{}}
		rm.pullImage = func(_ context.Context, _ client.Client, _ types.NamespacedName, ref string, _ ...crane.Option) (*packagetypes.RawPackage, error) {
			verifrt.Lock()
			inFlight[ref]++
			if inFlight[ref] > 1 {
				overlap = true
			}
			verifrt.Unlock()
			verifrt.Pause() // the pull takes a while: other goroutines may run
			verifrt.Lock()
			inFlight[ref]--
			pulls[ref]++
			verifrt.Unlock()
			if fails {
				return nil, errPull
			}
			return &packagetypes.RawPackage{Files: packagetypes.Files{"manifest.yaml": []byte("x")}}, nil
		}
		results := make([]*packagetypes.RawPackage, n)
		errs := make([]error, n)
		returned := make([]int, n)
		done := make(chan int, n)
		for k := 0; k < n; k++ {
			go func(k int) {
				pkg, err := rm.Pull(context.Background(), images[k])
				verifrt.Lock()
				results[k], errs[k] = pkg, err
				returned[k]++
				verifrt.Unlock()
				done <- k
			}(k)
		}
		for k := 0; k < n; k++ {
			<-done
		}
		verifrt.Lock()
		verifrt.Assert(!overlap, "C20/at-most-one-pull-per-image-in-flight")
		for k := 0; k < n; k++ {
			verifrt.Assert(returned[k] == 1, "C20/every-caller-gets-exactly-one-response")
			if fails {
				verifrt.Assert(results[k] == nil && errs[k] != nil, "C20/error-delivered-to-every-caller")
			} else {
				verifrt.Assert(results[k] != nil && errs[k] == nil, "C20/package-delivered-to-every-caller")
			}
		}
		for a := 0; a < n; a++ {
			for b := a + 1; b < n; b++ {
				if results[a] != nil && results[b] != nil {
					private := results[a] != results[b] && !verifrt.SameObject(results[a].Files, results[b].Files) &&
						!verifrt.SameObject(results[a].Files["manifest.yaml"], results[b].Files["manifest.yaml"])
					verifrt.Assert(private, "C20/each-caller-gets-a-private-copy")
				}
			}
		}
		for img, c := range callers {
			verifrt.Assert(pulls[img] >= 1 && pulls[img] <= c, "C20/pulls-are-deduplicated")
		}
		verifrt.Unlock()
		rm.inFlightLock.Lock()
		verifrt.Assert(len(rm.inFlight) == 0, "C20/no-stale-in-flight-entry")
		rm.inFlightLock.Unlock()
	}
	verifrt.Reach("all-callers-served")
}
