//go:build verif

package packageimport

import (
	"context"
	"errors"
	"strconv"
	"time"

	"github.com/google/go-containerregistry/pkg/crane"
	"k8s.io/apimachinery/pkg/types"
	"sigs.k8s.io/controller-runtime/pkg/client"

	"package-operator.run/internal/packages/internal/packagetypes"
	"package-operator.run/internal/verifrt"
)

var errPull = errors.New("registry unavailable")

// VerifC20Pull: concurrent Pull calls under every interleaving at lock/channel granularity. Caller 0 asks again as
// soon as it got its first response (a request arriving right after a broadcast). Natively the schedule cannot be
// forced; the replay widens the race windows instead (large payload, additional callers) and repeats the scenario.
func VerifC20Pull() {
	n := verifrt.Bound("callers", 2)
	images := make([]string, n)
	for k := 0; k < n; k++ {
		images[k] = []string{"img-a", "img-b"}[verifrt.IntRange("caller"+strconv.Itoa(k)+".image", 0, 1)]
	}
	fails := verifrt.Bool("pull.fails")
	again := verifrt.Bool("caller0.asksAgain")
	// caller 0's context may be cancelled while a pull is running: every waiter still gets its response
	cancels := verifrt.Bound("withCancel", 0) == 1 && verifrt.Bool("caller0.contextCancelledDuringPull")
	payload, extra := 1, 0
	if !verifrt.Symbolic() {
		payload, extra = 4<<20, 6
	}
	for iter := 0; iter < verifrt.Repeat(); iter++ {
		total := n + extra
		img := func(k int) string {
			if k < n {
				return images[k]
			}
			return images[0]
		}
		requests := map[string]int{}
		rounds := make([]int, total)
		for k := 0; k < total; k++ {
			rounds[k] = 1
			if k == 0 && again {
				rounds[k] = 2
			}
			if k >= n {
				rounds[k] = 4 // native noise callers: several requests at random moments
			}
			requests[img(k)] += rounds[k]
		}
		inFlight := map[string]int{}
		pulls := map[string]int{}
		overlap := false
		rm := &RequestManager{inFlight: map[string][]chan<- response{}}
		ctx0, cancel0 := context.WithCancel(context.Background())
		rm.pullImage = func(_ context.Context, _ client.Client, _ types.NamespacedName, ref string, _ ...crane.Option) (*packagetypes.RawPackage, error) {
			verifrt.Lock()
			inFlight[ref]++
			if inFlight[ref] > 1 {
				overlap = true
			}
			verifrt.Unlock()
			verifrt.Pause() // the pull takes a while: other goroutines may run
			if cancels {
				cancel0()
			}
			verifrt.Lock()
			inFlight[ref]--
			pulls[ref]++
			verifrt.Unlock()
			if fails {
				return nil, errPull
			}
			// an empty file read with io.ReadAll has no content but spare capacity
			return &packagetypes.RawPackage{Files: packagetypes.Files{"manifest.yaml": make([]byte, payload), "empty.yaml": make([]byte, 0, 512)}}, nil
		}
		results := make([]*packagetypes.RawPackage, total)
		errs := make([]error, total)
		returned := make([]int, total)
		done := make(chan int, total)
		for k := 0; k < total; k++ {
			go func(k int) {
				for r := 0; r < rounds[k]; r++ {
					if k >= n {
						verifrt.Pause()
						verifrt.Pause()
					}
					ctx := context.Background()
					if k == 0 {
						ctx = ctx0
					}
					pkg, err := rm.Pull(ctx, img(k))
					verifrt.Lock()
					results[k], errs[k] = pkg, err
					returned[k]++
					verifrt.Unlock()
				}
				done <- k
			}(k)
		}
		if !verifrt.Symbolic() {
			// natively a lost response shows as a caller that never returns: do not wait forever
			timeout := time.After(3 * time.Second)
			for k := 0; k < total; k++ {
				select {
				case <-done:
				case <-timeout:
					verifrt.Assert(false, "no-deadlock")
					verifrt.Assert(false, "C20/every-caller-gets-exactly-one-response")
					verifrt.Assert(false, "C20/no-stale-in-flight-entry")
					return
				}
			}
		} else {
			for k := 0; k < total; k++ {
				<-done
			}
		}
		verifrt.Lock()
		verifrt.Assert(!overlap, "C20/at-most-one-pull-per-image-in-flight")
		for k := 0; k < total; k++ {
			verifrt.Assert(returned[k] == rounds[k], "C20/every-caller-gets-exactly-one-response")
			if fails {
				verifrt.Assert(results[k] == nil && errs[k] != nil, "C20/error-delivered-to-every-caller")
			} else {
				verifrt.Assert(results[k] != nil && errs[k] == nil, "C20/package-delivered-to-every-caller")
			}
		}
		for a := 0; a < total; a++ {
			for b := a + 1; b < total; b++ {
				if results[a] != nil && results[b] != nil {
					private := results[a] != results[b] && !verifrt.SameObject(results[a].Files, results[b].Files) &&
						!verifrt.SameObject(results[a].Files["manifest.yaml"], results[b].Files["manifest.yaml"]) &&
						!verifrt.SameObject(results[a].Files["empty.yaml"], results[b].Files["empty.yaml"])
					verifrt.Assert(private, "C20/each-caller-gets-a-private-copy")
				}
			}
		}
		for im, c := range requests {
			verifrt.Assert(pulls[im] >= 1 && pulls[im] <= c, "C20/pulls-are-deduplicated")
		}
		verifrt.Unlock()
		rm.inFlightLock.Lock()
		verifrt.Assert(len(rm.inFlight) == 0, "C20/no-stale-in-flight-entry")
		rm.inFlightLock.Unlock()
	}
	verifrt.Reach("all-callers-served")
}
