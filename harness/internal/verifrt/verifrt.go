// Package verifrt is the run-time interface between verification harnesses and the symbolic executor.
// It is injected into the build through an overlay only (it does not exist in the repository).
// Under the executor every function here is intercepted; compiled natively the draws are read from a
// replay script (env VERIF_SCRIPT), which is how counterexamples are replayed against the real build.
package verifrt

import (
	"encoding/json"
	"fmt"
	"math/rand"
	"os"
	"reflect"
	"runtime"
	"strconv"
	"sync"
	"time"
)

type draw struct {
	Label string   `json:"label"`
	Kind  string   `json:"kind"`
	W     int      `json:"w"`
	Val   uint64   `json:"val"`
	Lits  []string `json:"lits"`
}

type script struct {
	Draws  []draw            `json:"draws"`
	Bounds map[string]int    `json:"bounds"`
	Env    map[string]string `json:"env"`
}

var (
	loaded   bool
	sc       script
	pos      int
	Failed   []string // labels of failed assertions (native replay)
	Reached  []string
	Mismatch []string
)

// AssumeFailed is the panic value used when an assumption does not hold in a native replay.
type AssumeFailed struct{}

func load() {
	if loaded {
		return
	}
	loaded = true
	if p := os.Getenv("VERIF_SCRIPT"); p != "" {
		b, err := os.ReadFile(p)
		if err != nil {
			panic(err)
		}
		if err := json.Unmarshal(b, &sc); err != nil {
			panic(err)
		}
	}
}

// Reset rewinds the script (for running a harness several times in one process).
func Reset() { load(); pos = 0; Failed = nil; Reached = nil; Mismatch = nil }

func next(label, kind string) uint64 {
	load()
	if pos >= len(sc.Draws) {
		Mismatch = append(Mismatch, fmt.Sprintf("script exhausted at draw %q", label))
		return 0
	}
	d := sc.Draws[pos]
	pos++
	if d.Label != label {
		Mismatch = append(Mismatch, fmt.Sprintf("draw %d: script has %q, harness asks %q", pos-1, d.Label, label))
	}
	return d.Val
}

// Symbolic reports whether the harness runs under the symbolic executor.
func Symbolic() bool { return false }

func Bool(label string) bool   { return next(label, "bool") != 0 }
func Int64(label string) int64 { return int64(next(label, "int")) }
func Int32(label string) int32 { return int32(uint32(next(label, "int"))) }

// IntRange draws a concrete integer in [lo,hi]; the executor forks once per value.
func IntRange(label string, lo, hi int) int {
	v := int(int64(next(label, "choice")))
	if v < lo || v > hi {
		Mismatch = append(Mismatch, fmt.Sprintf("draw %q out of range", label))
		return lo
	}
	return v
}

// StringFrom draws one of the literals.
func StringFrom(label string, lits ...string) string {
	if len(lits) == 1 {
		return lits[0]
	}
	k := int(next(label, "string"))
	if k < 0 || k >= len(lits) {
		k = 0
	}
	return lits[k]
}

// Bound returns a harness size bound configured per tier (default def).
func Bound(name string, def int) int {
	load()
	if v, ok := sc.Bounds[name]; ok {
		return v
	}
	if s := os.Getenv("VERIF_BOUND_" + name); s != "" {
		if n, err := strconv.Atoi(s); err == nil {
			return n
		}
	}
	return def
}

func Assume(cond bool) {
	if !cond {
		panic(AssumeFailed{})
	}
}

func Assert(cond bool, label string) {
	if !cond {
		Failed = append(Failed, label)
	}
}

func Reach(label string) { Reached = append(Reached, label) }

func Setenv(k, v string) { os.Setenv(k, v) }

// Panics runs f and reports whether it panicked.
func Panics(f func()) (p bool) {
	defer func() {
		if r := recover(); r != nil {
			if _, ok := r.(AssumeFailed); ok {
				panic(r)
			}
			p = true
		}
	}()
	f()
	return false
}

// PanicMessage runs f and returns the panic message ("" if it did not panic).
func PanicMessage(f func()) (msg string) {
	defer func() {
		if r := recover(); r != nil {
			if _, ok := r.(AssumeFailed); ok {
				panic(r)
			}
			msg = fmt.Sprint(r)
			if msg == "" {
				msg = "panic"
			}
		}
	}()
	f()
	return ""
}

func Yield() {}

// Opaque returns a string standing for arbitrary human-readable text.
func Opaque(hint string) string { return "<" + hint + ">" }

// Boolean connectives that do not branch (under the executor they build a formula).
func And(a, b bool) bool     { return a && b }
func Or(a, b bool) bool      { return a || b }
func Not(a bool) bool        { return !a }
func Implies(a, b bool) bool { return !a || b }

// SetJSONSize makes json.Marshal(obj) exactly size bytes long. Under the executor the size is a symbolic value
// attached to the map; natively the map is padded with a "pad" entry (size must be large enough).
func SetJSONSize(obj map[string]interface{}, size int64) {
	obj["pad"] = ""
	b, err := json.Marshal(obj)
	if err != nil {
		panic(err)
	}
	n := int(size) - len(b)
	if n < 0 {
		Mismatch = append(Mismatch, fmt.Sprintf("SetJSONSize: object already has %d bytes, cannot shrink to %d", len(b), size))
		return
	}
	pad := make([]byte, n)
	for i := range pad {
		pad[i] = 'x'
	}
	obj["pad"] = string(pad)
}

// Repeat tells a harness how often to run its body: once under the executor (which explores map iteration orders
// itself), many times natively (Go randomises map iteration order per range statement).
func Repeat() int { return 64 }

// SameObject reports whether two maps, slices or pointers share their storage.
func SameObject(a, b interface{}) bool {
	va, vb := reflect.ValueOf(a), reflect.ValueOf(b)
	if !va.IsValid() || !vb.IsValid() || va.Kind() != vb.Kind() {
		return false
	}
	switch va.Kind() {
	case reflect.Slice:
		// same backing array; slices without capacity share nothing (the runtime points all of them at one dummy)
		return va.Cap() > 0 && vb.Cap() > 0 && va.Pointer() == vb.Pointer()
	case reflect.Map, reflect.Pointer:
		return va.Pointer() != 0 && va.Pointer() == vb.Pointer()
	}
	return false
}

// Pause is a point where other goroutines get a chance to run (natively: a scheduler yield and a tiny random sleep).
func Pause() {
	runtime.Gosched()
	switch rand.Intn(4) {
	case 0:
	case 1:
		for k := rand.Intn(200); k > 0; k-- {
			runtime.Gosched()
		}
	default:
		// timers are coarse on some machines (about a millisecond): spread the sleeps over several ticks
		time.Sleep(time.Duration(rand.Intn(2500)) * time.Microsecond)
	}
}

var harnessMu sync.Mutex

// Lock/Unlock protect a harness's own bookkeeping. Under the executor they are not scheduling points (the
// executor runs one goroutine at a time anyway); natively they are a real mutex.
func Lock()   { harnessMu.Lock() }
func Unlock() { harnessMu.Unlock() }
