//go:build verif

package probing

import (
	"context"
	"strconv"

	"k8s.io/apimachinery/pkg/api/equality"
	metav1 "k8s.io/apimachinery/pkg/apis/meta/v1"
	"k8s.io/apimachinery/pkg/apis/meta/v1/unstructured"

	corev1alpha1 "package-operator.run/apis/core/v1alpha1"
	"package-operator.run/internal/verifrt"
)

type vCondEntry struct {
	isMap  bool
	typ    string
	status string
	ogKind int // 0 absent, 1 int64, 2 string
	og     int64
}

type vObjState struct {
	kind       string
	hasLabel   bool
	label      string
	generation int64
	statusKind int // 0 absent, 1 not a map, 2 map
	ogKind     int // 0 absent, 1 int64, 2 string, 3 float
	og         int64
	condsKind  int // 0 absent, 1 not a list, 2 list
	conds      []vCondEntry
	fieldKind  [2]int // per field: 0 absent, 1 int64, 2 string, 3 empty string
	fieldVal   [2]int64
}

func vDrawObject() (*unstructured.Unstructured, *vObjState) {
	s := &vObjState{}
	u := &unstructured.Unstructured{Object: map[string]interface{}{}}
	u.SetAPIVersion("apps/v1")
	s.kind = verifrt.StringFrom("object.kind", "Deployment", "StatefulSet")
	u.SetKind(s.kind)
	u.SetName("x")
	s.hasLabel = verifrt.Bool("object.hasLabel")
	if s.hasLabel {
		s.label = verifrt.StringFrom("object.label", "a", "b")
		u.SetLabels(map[string]string{"app": s.label})
	}
	s.generation = verifrt.Int64("object.generation")
	u.SetGeneration(s.generation)
	malformed := verifrt.Bound("withMalformed", 1) == 1
	withFields := verifrt.Bound("withFields", 1) == 1
	pick := func(label string, hi int, wellFormed []int) int {
		if malformed {
			return verifrt.IntRange(label, 0, hi)
		}
		return wellFormed[verifrt.IntRange(label, 0, len(wellFormed)-1)]
	}
	s.statusKind = pick("status.kind", 2, []int{0, 2})
	switch s.statusKind {
	case 1:
		u.Object["status"] = "broken"
	case 2:
		st := map[string]interface{}{}
		s.ogKind = pick("status.observedGeneration.kind", 3, []int{0, 1})
		switch s.ogKind {
		case 1:
			s.og = verifrt.Int64("status.observedGeneration")
			st["observedGeneration"] = s.og
		case 2:
			st["observedGeneration"] = "7"
		case 3:
			st["observedGeneration"] = 1.5
		}
		s.condsKind = pick("status.conditions.kind", 2, []int{0, 2})
		switch s.condsKind {
		case 1:
			st["conditions"] = "broken"
		case 2:
			n := verifrt.IntRange("status.conditions.len", 0, verifrt.Bound("maxConditions", 2))
			list := []interface{}{}
			for k := 0; k < n; k++ {
				p := "cond" + strconv.Itoa(k)
				var e vCondEntry
				e.isMap = true
				if malformed {
					e.isMap = verifrt.Bool(p + ".isMap")
				}
				if !e.isMap {
					list = append(list, "broken")
					s.conds = append(s.conds, e)
					continue
				}
				e.typ = verifrt.StringFrom(p+".type", "Available", "Ready")
				e.status = verifrt.StringFrom(p+".status", "True", "False")
				m := map[string]interface{}{"type": e.typ, "status": e.status}
				e.ogKind = pick(p+".observedGeneration.kind", 2, []int{0, 1})
				switch e.ogKind {
				case 1:
					e.og = verifrt.Int64(p + ".observedGeneration")
					m["observedGeneration"] = e.og
				case 2:
					m["observedGeneration"] = "7"
				}
				list = append(list, m)
				s.conds = append(s.conds, e)
			}
			st["conditions"] = list
		}
		for f, name := range []string{"replicas", "updatedReplicas"} {
			if !withFields {
				continue
			}
			s.fieldKind[f] = pick("status."+name+".kind", 3, []int{0, 1})
			switch s.fieldKind[f] {
			case 1:
				s.fieldVal[f] = verifrt.Int64("status." + name)
				st[name] = s.fieldVal[f]
			case 2:
				st[name] = "three"
			case 3:
				st[name] = "" // present but empty: equal only to another empty string
			}
		}
		u.Object["status"] = st
	}
	return u, s
}

type vInner struct {
	kind int // 0 condition Available==True, 1 fieldsEqual replicas/updatedReplicas, 2 empty, 3 CEL
	rule int // CEL: index into vCELRules
}

var vCELRules = []string{"true", "false", "has(self.status)"}

type vProbeSpec struct {
	kindSel  int // 0 none, 1 apps/Deployment, 2 apps/StatefulSet, 3 (core)/Deployment
	labelSel int // 0 none, 1 matchLabels app=a, 2 matchExpressions app In (a), 3 matchExpressions app Exists, 4 app=a and app NotIn (b)
	inner    []vInner
}

func vDrawProbes() ([]corev1alpha1.ObjectSetProbe, []vProbeSpec) {
	n := verifrt.IntRange("nProbes", 0, verifrt.Bound("maxProbes", 2))
	var out []corev1alpha1.ObjectSetProbe
	var specs []vProbeSpec
	for k := 0; k < n; k++ {
		p := "probe" + strconv.Itoa(k)
		var sp vProbeSpec
		var osp corev1alpha1.ObjectSetProbe
		sp.kindSel = verifrt.IntRange(p+".kindSelector", 0, 2+verifrt.Bound("withExpressions", 0))
		switch sp.kindSel {
		case 3:
			// the core group's kind of the same name selects nothing in the apps group
			osp.Selector.Kind = &corev1alpha1.PackageProbeKindSpec{Group: "", Kind: "Deployment"}
		case 1:
			osp.Selector.Kind = &corev1alpha1.PackageProbeKindSpec{Group: "apps", Kind: "Deployment"}
		case 2:
			osp.Selector.Kind = &corev1alpha1.PackageProbeKindSpec{Group: "apps", Kind: "StatefulSet"}
		}
		sp.labelSel = verifrt.IntRange(p+".labelSelector", 0, 1+3*verifrt.Bound("withExpressions", 0))
		switch sp.labelSel {
		case 1:
			osp.Selector.Selector = &metav1.LabelSelector{MatchLabels: map[string]string{"app": "a"}}
		case 2:
			osp.Selector.Selector = &metav1.LabelSelector{MatchExpressions: []metav1.LabelSelectorRequirement{
				{Key: "app", Operator: metav1.LabelSelectorOpIn, Values: []string{"a"}}}}
		case 3:
			osp.Selector.Selector = &metav1.LabelSelector{MatchExpressions: []metav1.LabelSelectorRequirement{
				{Key: "app", Operator: metav1.LabelSelectorOpExists}}}
		case 4:
			osp.Selector.Selector = &metav1.LabelSelector{MatchLabels: map[string]string{"app": "a"},
				MatchExpressions: []metav1.LabelSelectorRequirement{{Key: "app", Operator: metav1.LabelSelectorOpNotIn, Values: []string{"b"}}}}
		}
		ni := verifrt.IntRange(p+".nInner", 0, verifrt.Bound("maxInner", 2))
		for j := 0; j < ni; j++ {
			in := vInner{kind: verifrt.IntRange(p+".inner"+strconv.Itoa(j), 0, 2+verifrt.Bound("withCEL", 0))}
			if in.kind == 3 {
				in.rule = verifrt.IntRange(p+".inner"+strconv.Itoa(j)+".celRule", 0, len(vCELRules)-1)
			}
			sp.inner = append(sp.inner, in)
			switch in.kind {
			case 3:
				msg := ""
				if verifrt.Bool(p + ".inner" + strconv.Itoa(j) + ".celMessage") {
					msg = "cel says no"
				}
				osp.Probes = append(osp.Probes, corev1alpha1.Probe{CEL: &corev1alpha1.ProbeCELSpec{Rule: vCELRules[in.rule], Message: msg}})
			case 0:
				osp.Probes = append(osp.Probes, corev1alpha1.Probe{Condition: &corev1alpha1.ProbeConditionSpec{Type: "Available", Status: "True"}})
			case 1:
				osp.Probes = append(osp.Probes, corev1alpha1.Probe{FieldsEqual: &corev1alpha1.ProbeFieldsEqualSpec{FieldA: ".status.replicas", FieldB: ".status.updatedReplicas"}})
			case 2:
				osp.Probes = append(osp.Probes, corev1alpha1.Probe{})
			}
		}
		out = append(out, osp)
		specs = append(specs, sp)
	}
	return out, specs
}

// reference semantics written from the property statement ------------------------------------------------

func (s *vObjState) selectedBy(p vProbeSpec) bool {
	k := true
	switch p.kindSel {
	case 1:
		k = s.kind == "Deployment"
	case 2:
		k = s.kind == "StatefulSet"
	case 3:
		k = false
	}
	l := true
	switch p.labelSel {
	case 1, 2, 4:
		l = verifrt.And(s.hasLabel, s.label == "a")
	case 3:
		l = s.hasLabel
	}
	return verifrt.And(k, l)
}

func (s *vObjState) objectWideStale() bool {
	return verifrt.And(s.statusKind == 2 && s.ogKind == 1, s.og != s.generation)
}

// conditionVerdict: (decided, pass). Undecided when the list contains a non-map entry or two entries of the probed
// type (the statement does not say which one counts).
func (s *vObjState) conditionVerdict() (bool, bool) {
	if s.statusKind != 2 || s.condsKind != 2 {
		return true, false // missing or malformed conditions never pass
	}
	for _, e := range s.conds {
		if !e.isMap {
			return false, false
		}
	}
	var pass bool = false
	var count bool = false // more than one candidate?
	seen := false
	for _, e := range s.conds {
		isT := e.typ == "Available"
		stale := verifrt.And(e.ogKind == 1, e.og != s.generation)
		ok := verifrt.And(isT, verifrt.And(verifrt.Not(stale), e.status == "True"))
		if seen {
			count = verifrt.Or(count, isT)
		}
		pass = verifrt.Or(pass, ok)
		seen = true
		_ = count
	}
	return true, pass
}

func (s *vObjState) twoCandidates() bool {
	n := 0
	for _, e := range s.conds {
		if e.isMap && vFork(e.typ == "Available") {
			n++
		}
	}
	return n > 1
}

func vFork(b bool) bool {
	if b {
		return true
	}
	return false
}

func (s *vObjState) fieldsEqualVerdict() bool {
	if s.statusKind != 2 || s.fieldKind[0] == 0 || s.fieldKind[1] == 0 {
		return false // a missing field never passes
	}
	if s.fieldKind[0] != s.fieldKind[1] {
		return false
	}
	if s.fieldKind[0] == 2 || s.fieldKind[0] == 3 {
		return true
	}
	return s.fieldVal[0] == s.fieldVal[1]
}

// VerifC17Probing: the compiled prober against the reference semantics, for arbitrary probe lists and object shapes.
func VerifC17Probing() {
	specs, ref := vDrawProbes()
	obj, st := vDrawObject()
	before := obj.DeepCopy()
	prober, err := Parse(context.Background(), specs)
	verifrt.Assert(err == nil, "C17/parse-succeeds")
	ok, msgs := prober.Probe(obj)
	verifrt.Assert(equality.Semantic.DeepEqual(before.Object, obj.Object), "C17/probing-does-not-change-the-object")

	if st.twoCandidates() {
		verifrt.Reach("ambiguous-conditions")
		return
	}
	want := true
	decided := true
	anySelected := false
	wantMsgs := 0
	for _, p := range ref {
		sel := vFork(st.selectedBy(p))
		if !sel {
			continue
		}
		anySelected = true
		if vFork(st.objectWideStale()) {
			want = false
			wantMsgs++
			continue
		}
		for _, in := range p.inner {
			switch in.kind {
			case 0:
				d, pass := st.conditionVerdict()
				if !d {
					decided = false
				} else if !vFork(pass) {
					want = false
					wantMsgs++
				}
			case 1:
				if !vFork(st.fieldsEqualVerdict()) {
					want = false
					wantMsgs++
				}
			case 3:
				pass := in.rule == 0 || (in.rule == 2 && st.statusKind != 0)
				if !pass {
					want = false
					wantMsgs++
				}
			}
		}
	}
	if !anySelected {
		verifrt.Assert(ok && len(msgs) == 0, "C17/unselected-objects-pass")
		verifrt.Reach("unselected")
		return
	}
	if !decided {
		verifrt.Reach("malformed-condition-entry")
		return
	}
	verifrt.Assert(ok == want, "C17/conjunction-of-selected-probes")
	verifrt.Assert(len(msgs) == wantMsgs, "C17/all-failing-probes-reported")
	if want {
		verifrt.Reach("pass")
	} else {
		verifrt.Reach("fail")
	}
}

// VerifC17CELRules: a probe list with a CEL rule parses iff the rule compiles and is boolean.
func VerifC17CELRules() {
	rules := []string{"true", "has(self.status)", "1", "'text'", "self.metadata", "self.("}
	k := verifrt.IntRange("rule", 0, len(rules)-1)
	specs := []corev1alpha1.ObjectSetProbe{{
		Probes: []corev1alpha1.Probe{
			{Condition: &corev1alpha1.ProbeConditionSpec{Type: "Available", Status: "True"}},
			{CEL: &corev1alpha1.ProbeCELSpec{Rule: rules[k], Message: "m"}},
		},
		Selector: corev1alpha1.ProbeSelector{Kind: &corev1alpha1.PackageProbeKindSpec{Group: "apps", Kind: "Deployment"}},
	}}
	prober, err := Parse(context.Background(), specs)
	if k <= 1 {
		verifrt.Assert(err == nil && prober != nil, "C17/boolean-cel-rule-accepted")
		verifrt.Reach("cel-accepted")
	} else {
		verifrt.Assert(err != nil, "C17/cel-rules-must-be-boolean")
		verifrt.Reach("cel-rejected")
	}
}
