//go:build verif

package dynamiccache

import (
	"context"
	"errors"
	"time"

	"k8s.io/apimachinery/pkg/apis/meta/v1/unstructured"
	"k8s.io/apimachinery/pkg/runtime"
	"k8s.io/apimachinery/pkg/runtime/schema"
	"k8s.io/apimachinery/pkg/types"
	"k8s.io/client-go/tools/cache"
	"k8s.io/client-go/util/workqueue"
	"sigs.k8s.io/controller-runtime/pkg/client"
	"sigs.k8s.io/controller-runtime/pkg/event"
	"sigs.k8s.io/controller-runtime/pkg/handler"
	"sigs.k8s.io/controller-runtime/pkg/predicate"
	"sigs.k8s.io/controller-runtime/pkg/reconcile"
	"sigs.k8s.io/controller-runtime/pkg/source"

	corev1alpha1 "package-operator.run/apis/core/v1alpha1"
	"package-operator.run/internal/verifrt"
)

// ---- scripted informer map (the hook the property asks for: an in-package constructor, overlay only) ----

type vInformer struct {
	cache.SharedIndexInformer // nil: never called, identity only
	kind                      string
}

type vInformerMap struct {
	running  map[string]*vInformer // kind -> informer
	created  []*vInformer
	deleted  []string
	getCalls int
	failNext bool // next Get that has to create an informer fails before creating it
	failSync bool // next Get that creates an informer creates it and then fails (sync time-out)
}

var errStart = errors.New("informer start-up failure")

type vNopReader struct{}

func (vNopReader) Get(context.Context, client.ObjectKey, client.Object, ...client.GetOption) error {
	return nil
}
func (vNopReader) List(context.Context, client.ObjectList, ...client.ListOption) error { return nil }

func (m *vInformerMap) Get(_ context.Context, gvk schema.GroupVersionKind, _ runtime.Object,
) (cache.SharedIndexInformer, client.Reader, error) {
	m.getCalls++
	if inf, ok := m.running[gvk.Kind]; ok {
		return inf, vNopReader{}, nil
	}
	if m.failNext {
		m.failNext = false
		return nil, nil, errStart
	}
	inf := &vInformer{kind: gvk.Kind}
	m.running[gvk.Kind] = inf
	m.created = append(m.created, inf)
	if m.failSync {
		m.failSync = false
		return nil, nil, errStart
	}
	return inf, vNopReader{}, nil
}

func (m *vInformerMap) Delete(_ context.Context, gvk schema.GroupVersionKind) error {
	m.deleted = append(m.deleted, gvk.Kind)
	delete(m.running, gvk.Kind)
	return nil
}

// vSource records which informers received the registered handlers.
type vSource struct {
	handled  map[*vInformer]bool
	failNext bool
}

func (s *vSource) Source(handler.EventHandler, ...predicate.Predicate) source.Source { return nil }
func (s *vSource) blockNewRegistrations()                                            {}
func (s *vSource) handleNewInformer(inf cache.SharedIndexInformer) error {
	if s.failNext {
		s.failNext = false
		return errStart
	}
	s.handled[inf.(*vInformer)] = true
	return nil
}

func vScheme() *runtime.Scheme {
	if verifrt.Symbolic() {
		return &runtime.Scheme{}
	}
	s := runtime.NewScheme()
	if err := corev1alpha1.AddToScheme(s); err != nil {
		panic(err)
	}
	return s
}

var (
	vKinds  = []string{"K1", "K2"}
	vOwners = []string{"o1", "o2", "o3"}
)

func vOwner(name string) client.Object {
	o := &corev1alpha1.ObjectSet{}
	o.Name, o.Namespace, o.UID = name, "ns", types.UID("uid-"+name)
	return o
}

func vOwnerRef(name string) OwnerReference {
	return OwnerReference{GroupKind: schema.GroupKind{Group: "package-operator.run", Kind: "ObjectSet"}, UID: types.UID("uid-" + name), Name: name, Namespace: "ns"}
}

func vGVK(kind string) schema.GroupVersionKind {
	return schema.GroupVersionKind{Group: "example.com", Version: "v1", Kind: kind}
}

func vObjOfKind(kind string) *unstructured.Unstructured {
	u := &unstructured.Unstructured{}
	u.SetGroupVersionKind(vGVK(kind))
	return u
}

// vRecorder is a metrics recorder: with one configured, every Watch and Free also samples the cache (lists every
// watched kind through the informer map).
type vRecorder struct{ informers, objects int }

func (r *vRecorder) RecordDynamicCacheInformers(int) {
	verifrt.Lock()
	r.informers++
	verifrt.Unlock()
}

func (r *vRecorder) RecordDynamicCacheObjects(schema.GroupVersionKind, int) {
	verifrt.Lock()
	r.objects++
	verifrt.Unlock()
}

type vCacheWorld struct {
	c       *Cache
	im      *vInformerMap
	src     *vSource
	watches map[string]map[string]bool // kind -> owner -> present (pre-state record)
}

// vDrawWorld draws a cache state satisfying the representation invariant I.
func vDrawWorld(nKinds, nOwners int) *vCacheWorld {
	w := &vCacheWorld{im: &vInformerMap{running: map[string]*vInformer{}}, src: &vSource{handled: map[*vInformer]bool{}},
		watches: map[string]map[string]bool{}}
	w.c = &Cache{scheme: vScheme(), informerMap: w.im, informerReferences: map[schema.GroupVersionKind]map[OwnerReference]struct{}{}, cacheSource: w.src}
	for _, k := range vKinds[:nKinds] {
		w.watches[k] = map[string]bool{}
		for _, o := range vOwners[:nOwners] {
			if verifrt.Bool("pre.watch." + k + "." + o) {
				w.watches[k][o] = true
				if w.c.informerReferences[vGVK(k)] == nil {
					w.c.informerReferences[vGVK(k)] = map[OwnerReference]struct{}{}
					inf := &vInformer{kind: k}
					w.im.running[k] = inf
					w.src.handled[inf] = true
				}
				w.c.informerReferences[vGVK(k)][vOwnerRef(o)] = struct{}{}
			}
		}
	}
	return w
}

// invariant I: kind in table <=> owner set non-empty <=> an informer runs for it, and every running informer got the handlers.
func (w *vCacheWorld) checkInvariant(label string) {
	for _, k := range vKinds {
		refs, inTable := w.c.informerReferences[vGVK(k)]
		inf, running := w.im.running[k]
		verifrt.Assert(!inTable || len(refs) > 0, label+"/no-empty-owner-set-in-table")
		verifrt.Assert(inTable == running, label+"/informer-runs-exactly-while-watched")
		if running {
			verifrt.Assert(w.src.handled[inf], label+"/every-running-informer-delivers-to-handlers")
		}
	}
}

func (w *vCacheWorld) owners(kind string) map[string]bool {
	out := map[string]bool{}
	for ref := range w.c.informerReferences[vGVK(kind)] {
		out[ref.Name] = true
	}
	return out
}

// VerifC12Step: one cache operation from an arbitrary valid state, including informer start-up failures.
func VerifC12Step() {
	nKinds := verifrt.Bound("kinds", 2)
	nOwners := verifrt.Bound("owners", 2)
	w := vDrawWorld(nKinds, nOwners)
	if verifrt.Bool("metricsRecorder.configured") {
		w.c.recorder = &vRecorder{}
	}
	w.checkInvariant("C12/pre")
	ctx := context.Background()
	op := verifrt.IntRange("op", 0, 4) // Watch | Free | Get | List | OwnersForGKV
	kind := vKinds[verifrt.IntRange("op.kind", 0, nKinds-1)]
	owner := vOwners[verifrt.IntRange("op.owner", 0, nOwners-1)]
	created0 := len(w.im.created)
	switch op {
	case 0:
		fail := verifrt.IntRange("watch.failure", 0, 3) // none | informer creation fails | informer created, sync fails | handler registration fails
		switch fail {
		case 1:
			w.im.failNext = true
		case 2:
			w.im.failSync = true
		case 3:
			w.src.failNext = true
		}
		wasWatched := len(w.watches[kind]) > 0
		err := w.c.Watch(ctx, vOwner(owner), vObjOfKind(kind))
		if wasWatched || fail == 0 {
			verifrt.Assert(err == nil, "C12/watch-succeeds")
			got := w.owners(kind)
			verifrt.Assert(got[owner], "C12/watch-records-owner")
			for _, o := range vOwners {
				if o != owner {
					verifrt.Assert(got[o] == w.watches[kind][o], "C12/watch-leaves-other-owners-alone")
				}
			}
			if wasWatched {
				verifrt.Assert(len(w.im.created) == created0, "C12/watch-idempotent-no-second-informer")
			} else {
				verifrt.Assert(len(w.im.created) == created0+1, "C12/first-watch-starts-one-informer")
			}
			verifrt.Reach("watch-ok")
		} else {
			verifrt.Assert(err != nil, "C12/failed-start-is-reported")
			verifrt.Reach("watch-failed-start")
			// a failed start leaves nothing behind: no table entry, no half-started informer
			w.checkInvariant("C12/after-failed-start")
			// the caller retries: the retry must start an informer that delivers to the handlers
			err2 := w.c.Watch(ctx, vOwner(owner), vObjOfKind(kind))
			verifrt.Assert(err2 == nil, "C12/retry-after-failed-start-succeeds")
			inf, running := w.im.running[kind]
			verifrt.Assert(running && w.src.handled[inf], "C12/retry-after-failed-start-delivers-events")
		}
	case 1:
		err := w.c.Free(ctx, vOwner(owner))
		verifrt.Assert(err == nil, "C12/free-succeeds")
		for _, k := range vKinds[:nKinds] {
			got := w.owners(k)
			verifrt.Assert(!got[owner], "C12/free-drops-all-watches-of-owner")
			for _, o := range vOwners {
				if o != owner {
					verifrt.Assert(got[o] == w.watches[k][o], "C12/free-drops-only-that-owner")
				}
			}
		}
		verifrt.Reach("free")
	case 2:
		calls0 := w.im.getCalls
		err := w.c.Get(ctx, client.ObjectKey{Namespace: "ns", Name: "x"}, vObjOfKind(kind))
		if len(w.watches[kind]) == 0 {
			var ns *CacheNotStartedError
			verifrt.Assert(errors.As(err, &ns), "C12/read-of-unwatched-kind-fails")
			verifrt.Assert(w.im.getCalls == calls0 && len(w.im.created) == created0, "C12/read-never-starts-an-informer")
			verifrt.Reach("get-unwatched")
		} else {
			verifrt.Assert(err == nil, "C12/read-of-watched-kind-works")
			verifrt.Reach("get-watched")
		}
	case 3:
		list := &unstructured.UnstructuredList{}
		list.SetGroupVersionKind(schema.GroupVersionKind{Group: "example.com", Version: "v1", Kind: kind + "List"})
		calls0 := w.im.getCalls
		err := w.c.List(ctx, list)
		if len(w.watches[kind]) == 0 {
			var ns *CacheNotStartedError
			verifrt.Assert(errors.As(err, &ns), "C12/read-of-unwatched-kind-fails")
			verifrt.Assert(w.im.getCalls == calls0 && len(w.im.created) == created0, "C12/read-never-starts-an-informer")
			verifrt.Reach("list-unwatched")
		} else {
			verifrt.Assert(err == nil, "C12/read-of-watched-kind-works")
		}
	case 4:
		refs := w.c.OwnersForGKV(vGVK(kind))
		verifrt.Assert(len(refs) == len(w.watches[kind]), "C12/owners-for-kind")
		for _, r := range refs {
			verifrt.Assert(w.watches[kind][r.Name], "C12/owners-for-kind")
		}
	}
	w.checkInvariant("C12/post")
	for _, inf := range w.im.created[created0:] {
		if w.im.running[inf.kind] == inf {
			verifrt.Assert(w.src.handled[inf], "C12/every-started-informer-got-the-handlers")
		}
	}
}

// ---- racing calls --------------------------------------------------------------------------------------------

func vBuildWorld(pre map[string]map[string]bool) *vCacheWorld {
	w := &vCacheWorld{im: &vInformerMap{running: map[string]*vInformer{}}, src: &vSource{handled: map[*vInformer]bool{}},
		watches: map[string]map[string]bool{}}
	w.c = &Cache{scheme: vScheme(), informerMap: &vSlowInformerMap{m: w.im}, informerReferences: map[schema.GroupVersionKind]map[OwnerReference]struct{}{}, cacheSource: w.src}
	for _, k := range vKinds {
		w.watches[k] = map[string]bool{}
		for _, o := range vOwners {
			if pre[k][o] {
				w.watches[k][o] = true
				if w.c.informerReferences[vGVK(k)] == nil {
					w.c.informerReferences[vGVK(k)] = map[OwnerReference]struct{}{}
					inf := &vInformer{kind: k}
					w.im.running[k] = inf
					w.src.handled[inf] = true
				}
				w.c.informerReferences[vGVK(k)][vOwnerRef(o)] = struct{}{}
			}
		}
	}
	return w
}

// vSlowInformerMap is the scripted informer map behind its own lock (as the real InformerMap), with a pause inside
// Get and Delete: starting and stopping informers takes time, other goroutines run meanwhile.
type vSlowInformerMap struct{ m *vInformerMap }

func (s *vSlowInformerMap) Get(ctx context.Context, gvk schema.GroupVersionKind, obj runtime.Object,
) (cache.SharedIndexInformer, client.Reader, error) {
	verifrt.Pause()
	verifrt.Lock()
	defer verifrt.Unlock()
	return s.m.Get(ctx, gvk, obj)
}

func (s *vSlowInformerMap) Delete(ctx context.Context, gvk schema.GroupVersionKind) error {
	verifrt.Pause()
	verifrt.Lock()
	defer verifrt.Unlock()
	return s.m.Delete(ctx, gvk)
}

// VerifC12Race: two cache calls (Watch / Free / Get) race from an arbitrary valid state; every interleaving at
// lock granularity (bounded pre-emptions). Afterwards the representation invariant holds, the reference table is
// what the two calls produce in either order, and a read either failed with CacheNotStarted or was served - it
// never left an informer behind that nobody watches.
func VerifC12Race() {
	nKinds := verifrt.Bound("kinds", 1)
	nOwners := verifrt.Bound("owners", 2)
	pre := map[string]map[string]bool{}
	for _, k := range vKinds[:nKinds] {
		pre[k] = map[string]bool{}
		for _, o := range vOwners[:nOwners] {
			pre[k][o] = verifrt.Bool("pre.watch." + k + "." + o)
		}
	}
	type call struct {
		op    int // 0 Watch | 1 Free | 2 Get
		kind  string
		owner string
	}
	var calls [2]call
	for t := 0; t < 2; t++ {
		p := "t" + string(rune('0'+t))
		calls[t].op = verifrt.IntRange(p+".op", 0, 2)
		calls[t].kind = vKinds[verifrt.IntRange(p+".kind", 0, nKinds-1)]
		calls[t].owner = vOwners[verifrt.IntRange(p+".owner", 0, nOwners-1)]
	}
	withRecorder := verifrt.Bool("metricsRecorder.configured")
	for iter := 0; iter < verifrt.Repeat(); iter++ {
		w := vBuildWorld(pre)
		if withRecorder {
			w.c.recorder = &vRecorder{}
		}
		ctx := context.Background()
		var errs [2]error
		done := make(chan int, 2)
		for t := 0; t < 2; t++ {
			go func(t int) {
				c := calls[t]
				var err error
				if !verifrt.Symbolic() {
					verifrt.Pause() // natively: randomise which call starts first
				}
				switch c.op {
				case 0:
					err = w.c.Watch(ctx, vOwner(c.owner), vObjOfKind(c.kind))
				case 1:
					err = w.c.Free(ctx, vOwner(c.owner))
				case 2:
					err = w.c.Get(ctx, client.ObjectKey{Namespace: "ns", Name: "x"}, vObjOfKind(c.kind))
				}
				verifrt.Lock()
				errs[t] = err
				verifrt.Unlock()
				done <- t
			}(t)
		}
		if verifrt.Symbolic() {
			<-done
			<-done
		} else {
			// natively a deadlock shows as a hang
			timeout := time.After(3 * time.Second)
			for k := 0; k < 2; k++ {
				select {
				case <-done:
				case <-timeout:
					verifrt.Assert(false, "no-deadlock")
					return
				}
			}
		}
		w.c.informerReferencesMux.Lock()
		verifrt.Lock()
		w.checkInvariant("C12/race")
		// expected reference table: apply both calls in order a,b and in order b,a (reads do not change it)
		expect := func(order [2]int) map[string]map[string]bool {
			st := map[string]map[string]bool{}
			for _, k := range vKinds {
				st[k] = map[string]bool{}
				for o, v := range pre[k] {
					if v {
						st[k][o] = true
					}
				}
			}
			for _, t := range order {
				c := calls[t]
				switch c.op {
				case 0:
					st[c.kind][c.owner] = true
				case 1:
					for _, k := range vKinds {
						delete(st[k], c.owner)
					}
				}
			}
			return st
		}
		same := func(st map[string]map[string]bool) bool {
			ok := true
			for _, k := range vKinds {
				got := w.owners(k)
				for _, o := range vOwners {
					if got[o] != st[k][o] {
						ok = false
					}
				}
			}
			return ok
		}
		verifrt.Assert(same(expect([2]int{0, 1})) || same(expect([2]int{1, 0})), "C12/race-result-is-one-of-the-two-orders")
		for t := 0; t < 2; t++ {
			c, other := calls[t], calls[1-t]
			switch c.op {
			case 0, 1:
				verifrt.Assert(errs[t] == nil, "C12/race-call-succeeds")
			case 2:
				watchedBefore := false
				for _, v := range pre[c.kind] {
					watchedBefore = watchedBefore || v
				}
				var ns *CacheNotStartedError
				notStarted := errors.As(errs[t], &ns)
				verifrt.Assert(errs[t] == nil || notStarted, "C12/race-read-served-or-refused")
				if other.op == 2 || (other.op == 0 && other.kind != c.kind) {
					// the other call cannot change whether this kind is watched
					verifrt.Assert(notStarted == !watchedBefore, "C12/race-read-of-unwatched-kind-fails")
				}
			}
		}
		verifrt.Unlock()
		w.c.informerReferencesMux.Unlock()
	}
	verifrt.Reach("race-done")
}

// ---- event fan-out to the watching owners (C18: a change to any source re-renders the template) -----------------

type vQueue struct {
	workqueue.TypedRateLimitingInterface[reconcile.Request] // nil: only Add is used
	added                                                   []reconcile.Request
}

func (q *vQueue) Add(r reconcile.Request) { q.added = append(q.added, r) }

// VerifC18Enqueue: an event for an object of kind K enqueues every owner of the handler's type that watches K - and
// nobody else - for create, update, delete and generic events, from an arbitrary reference table.
func VerifC18Enqueue() {
	nKinds := verifrt.Bound("kinds", 2)
	nOwners := verifrt.Bound("owners", 3)
	ownerKinds := []string{"ObjectTemplate", "ObjectSet"}
	c := &Cache{scheme: vScheme(), informerReferences: map[schema.GroupVersionKind]map[OwnerReference]struct{}{}}
	type ow struct {
		kind    string
		ns      string
		watches map[string]bool
	}
	owners := map[string]*ow{}
	for _, o := range vOwners[:nOwners] {
		w := &ow{kind: ownerKinds[verifrt.IntRange("owner."+o+".kind", 0, 1)], ns: []string{"ns", "other"}[verifrt.IntRange("owner."+o+".namespace", 0, 1)], watches: map[string]bool{}}
		owners[o] = w
		for _, k := range vKinds[:nKinds] {
			if verifrt.Bool("watch." + k + "." + o) {
				w.watches[k] = true
				if c.informerReferences[vGVK(k)] == nil {
					c.informerReferences[vGVK(k)] = map[OwnerReference]struct{}{}
				}
				ref := OwnerReference{GroupKind: schema.GroupKind{Group: "package-operator.run", Kind: w.kind}, UID: types.UID("uid-" + o), Name: o, Namespace: w.ns}
				c.informerReferences[vGVK(k)][ref] = struct{}{}
			}
		}
	}
	h := NewEnqueueWatchingObjects(c, &corev1alpha1.ObjectTemplate{}, vScheme())
	kind := vKinds[verifrt.IntRange("event.kind", 0, nKinds-1)]
	obj := vObjOfKind(kind)
	obj.SetName("source")
	obj.SetNamespace("ns")
	q := &vQueue{}
	ctx := context.Background()
	switch verifrt.IntRange("event.type", 0, 3) {
	case 0:
		h.Create(ctx, event.CreateEvent{Object: obj}, q)
	case 1:
		h.Update(ctx, event.UpdateEvent{ObjectOld: obj, ObjectNew: obj}, q)
	case 2:
		h.Delete(ctx, event.DeleteEvent{Object: obj}, q)
	case 3:
		h.Generic(ctx, event.GenericEvent{Object: obj}, q)
	}
	for _, o := range vOwners[:nOwners] {
		w := owners[o]
		n := 0
		for _, r := range q.added {
			if r.Name == o {
				n++
				verifrt.Assert(r.Namespace == w.ns, "C18/watcher-enqueued-under-its-own-key")
			}
		}
		want := w.kind == "ObjectTemplate" && w.watches[kind]
		verifrt.Assert((n > 0) == want, "C18/source-event-enqueues-exactly-the-watching-templates")
	}
	for _, r := range q.added {
		_, known := owners[r.Name]
		verifrt.Assert(known, "C18/source-event-enqueues-exactly-the-watching-templates")
	}
	verifrt.Reach("enqueued")
}

// ---- handler registration on informers created later ------------------------------------------------------------

type vRegInformer struct {
	cache.SharedIndexInformer // nil: only AddEventHandler is used
	added                     int
	failAt                    int // fail the k-th registration (1-based), 0 = never
}

func (v *vRegInformer) AddEventHandler(cache.ResourceEventHandler) (cache.ResourceEventHandlerRegistration, error) {
	v.added++
	if v.added == v.failAt {
		return nil, errStart
	}
	return nil, nil
}

type vNopHandler struct{}

func (vNopHandler) Create(context.Context, event.CreateEvent, workqueue.TypedRateLimitingInterface[reconcile.Request]) {
}
func (vNopHandler) Update(context.Context, event.UpdateEvent, workqueue.TypedRateLimitingInterface[reconcile.Request]) {
}
func (vNopHandler) Delete(context.Context, event.DeleteEvent, workqueue.TypedRateLimitingInterface[reconcile.Request]) {
}
func (vNopHandler) Generic(context.Context, event.GenericEvent, workqueue.TypedRateLimitingInterface[reconcile.Request]) {
}

// VerifC12Handlers: every controller that asked the cache for an event source before the manager started gets its
// handler registered on every informer the cache creates later; a registration failure is reported, not swallowed.
func VerifC12Handlers() {
	src := &cacheSource{}
	n := verifrt.IntRange("nControllers", 0, verifrt.Bound("maxControllers", 3))
	for k := 0; k < n; k++ {
		s := src.Source(vNopHandler{})
		err := s.Start(context.Background(), &vQueue{})
		verifrt.Assert(err == nil, "C12/source-start-registers-handler")
	}
	if verifrt.Bool("managerStarted") {
		src.blockNewRegistrations()
	}
	inf := &vRegInformer{failAt: verifrt.IntRange("registrationFailsAt", 0, n)}
	err := src.handleNewInformer(inf)
	if inf.failAt == 0 {
		verifrt.Assert(err == nil && inf.added == n, "C12/every-started-informer-got-the-handlers")
		verifrt.Reach("handlers-registered")
	} else {
		verifrt.Assert(err != nil, "C12/failed-handler-registration-is-reported")
		verifrt.Reach("registration-failed")
	}
}

// ---- the real InformerMap: one Delete from an arbitrary set of running informers ----

type vSyncedInformer struct {
	cache.SharedIndexInformer // nil: identity only
	kind                      string
}

func (v *vSyncedInformer) HasSynced() bool { return true }

func vChanClosed(ch chan struct{}) bool {
	select {
	case _, ok := <-ch:
		return !ok
	default:
		return false
	}
}

// VerifC12InformerMap: InformerMap.Delete/Get with real code from an arbitrary set of running informers. After the
// last owner of a kind is freed the cache calls Delete; the informer must be stopped AND forgotten, so that a later
// Watch of the kind starts a fresh one instead of being handed the stopped one; other kinds keep running; deleting
// twice is harmless.
func VerifC12InformerMap() {
	kinds := []string{"A", "B", "C", "D"}
	n := verifrt.IntRange("nKinds", 1, verifrt.Bound("maxKinds", 3))
	im := &InformerMap{informers: map[schema.GroupVersionKind]mapEntry{}}
	infs := make([]*vSyncedInformer, n)
	chans := make([]chan struct{}, n)
	present := make([]bool, n)
	for k := 0; k < n; k++ {
		present[k] = verifrt.Bool(kinds[k] + ".running")
		if present[k] {
			infs[k] = &vSyncedInformer{kind: kinds[k]}
			chans[k] = make(chan struct{}, 1)
			im.informers[vGVK(kinds[k])] = mapEntry{Informer: infs[k], Reader: vNopReader{}, StopCh: chans[k]}
		}
	}
	victim := verifrt.IntRange("victim", 0, n-1)
	ctx := context.Background()
	err := im.Delete(ctx, vGVK(kinds[victim]))
	verifrt.Assert(err == nil, "C12/delete-never-fails")
	for k := 0; k < n; k++ {
		_, still := im.informers[vGVK(kinds[k])]
		if k == victim {
			if present[k] {
				verifrt.Assert(vChanClosed(chans[k]), "C12/delete-stops-the-informer")
			}
			verifrt.Assert(!still, "C12/stopped-informer-is-forgotten")
			continue
		}
		verifrt.Assert(still == present[k], "C12/delete-leaves-other-kinds")
		if present[k] {
			verifrt.Assert(!vChanClosed(chans[k]), "C12/delete-leaves-other-kinds-running")
		}
	}
	// a second Delete of the same kind (Free racing with Free, or a retry) is a no-op
	verifrt.Assert(im.Delete(ctx, vGVK(kinds[victim])) == nil, "C12/delete-is-idempotent")
	// the kinds still running are handed out as they are
	for k := 0; k < n; k++ {
		if k == victim || !present[k] {
			continue
		}
		inf, _, gerr := im.Get(ctx, vGVK(kinds[k]), vObjOfKind(kinds[k]))
		verifrt.Assert(gerr == nil && inf == cache.SharedIndexInformer(infs[k]), "C12/get-returns-the-running-informer")
	}
	if present[victim] {
		verifrt.Reach("deleted-running")
	} else {
		verifrt.Reach("deleted-absent")
	}
}
