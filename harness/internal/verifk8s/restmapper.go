package verifk8s

import (
	"k8s.io/apimachinery/pkg/api/meta"
	"k8s.io/apimachinery/pkg/runtime/schema"
)

// Scope answers of the RESTMapper double per kind.
const (
	ScopeNamespaced = 0
	ScopeCluster    = 1
	ScopeNoMatch    = 2
	ScopeError      = 3
)

// RESTMapper is a double answering RESTMapping from a table kind -> scope.
type RESTMapper struct {
	Scope map[string]int
	Calls int
}

func (m *RESTMapper) RESTMapping(gk schema.GroupKind, versions ...string) (*meta.RESTMapping, error) {
	m.Calls++
	switch m.Scope[gk.Kind] {
	case ScopeNoMatch:
		return nil, &meta.NoKindMatchError{GroupKind: gk, SearchedVersions: versions}
	case ScopeError:
		return nil, ErrOpaque
	case ScopeCluster:
		return &meta.RESTMapping{Scope: meta.RESTScopeRoot}, nil
	}
	return &meta.RESTMapping{Scope: meta.RESTScopeNamespace}, nil
}

func (m *RESTMapper) KindFor(schema.GroupVersionResource) (schema.GroupVersionKind, error) {
	panic("not used")
}
func (m *RESTMapper) KindsFor(schema.GroupVersionResource) ([]schema.GroupVersionKind, error) {
	panic("not used")
}
func (m *RESTMapper) ResourceFor(schema.GroupVersionResource) (schema.GroupVersionResource, error) {
	panic("not used")
}
func (m *RESTMapper) ResourcesFor(schema.GroupVersionResource) ([]schema.GroupVersionResource, error) {
	panic("not used")
}
func (m *RESTMapper) RESTMappings(schema.GroupKind, ...string) ([]*meta.RESTMapping, error) {
	panic("not used")
}
func (m *RESTMapper) ResourceSingularizer(string) (string, error) { panic("not used") }
