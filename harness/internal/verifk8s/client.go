// Package verifk8s provides recording doubles for the Kubernetes client interfaces used by the controllers
// (DESIGN §4.1). It exists only in the verification overlay.
package verifk8s

import (
	"context"
	"encoding/json"
	"errors"
	"fmt"
	"strings"

	apimachineryerrors "k8s.io/apimachinery/pkg/api/errors"
	"k8s.io/apimachinery/pkg/api/meta"
	"k8s.io/apimachinery/pkg/apis/meta/v1/unstructured"
	"k8s.io/apimachinery/pkg/runtime"
	"k8s.io/apimachinery/pkg/runtime/schema"
	"k8s.io/apimachinery/pkg/types"
	"sigs.k8s.io/controller-runtime/pkg/client"
)

var ErrOpaque = errors.New("opaque API error")

// TypeName returns the short Go type name of x without pointer marks ("ObjectSet").
func TypeName(x interface{}) string {
	s := fmt.Sprintf("%T", x)
	s = strings.TrimLeft(s, "*")
	if k := strings.LastIndex(s, "."); k >= 0 {
		s = s[k+1:]
	}
	return s
}

// KindOf returns the kind used to index objects: the unstructured kind or the Go type name.
func KindOf(obj runtime.Object) string {
	if u, ok := obj.(*unstructured.Unstructured); ok {
		return u.GetKind()
	}
	return TypeName(obj)
}

type Key struct {
	Kind      string
	Namespace string
	Name      string
}

func KeyOf(obj client.Object) Key {
	return Key{Kind: KindOf(obj), Namespace: obj.GetNamespace(), Name: obj.GetName()}
}

type Call struct {
	Verb      string // get | list | create | update | patch | delete | status-update | status-patch
	Key       Key
	Obj       map[string]interface{} // JSON form of the object passed (deep copy)
	PatchType types.PatchType
	Data      []byte
	DryRun    bool
	Force     bool
	FieldMgr  string
	PreUID    *types.UID
	PreRV     *string
}

func (c Call) IsWrite() bool { return c.Verb != "get" && c.Verb != "list" && c.Verb != "free" }

// U returns the recorded object as unstructured.
func (c Call) U() *unstructured.Unstructured { return &unstructured.Unstructured{Object: c.Obj} }

func ToMap(obj runtime.Object) map[string]interface{} {
	if u, ok := obj.(*unstructured.Unstructured); ok {
		return u.DeepCopy().Object
	}
	m, err := runtime.DefaultUnstructuredConverter.ToUnstructured(obj)
	if err != nil {
		panic(err)
	}
	return m
}

func FromMap(m map[string]interface{}, into runtime.Object) {
	if u, ok := into.(*unstructured.Unstructured); ok {
		u.Object = runtime.DeepCopyJSON(m)
		return
	}
	if err := runtime.DefaultUnstructuredConverter.FromUnstructured(runtime.DeepCopyJSON(m), into); err != nil {
		panic(err)
	}
}

// Client is a recording client.Client. Objects are stored in JSON form.
type Client struct {
	Objs    map[Key]map[string]interface{}
	GetErr  map[Key]error
	Calls   []Call
	Outcome func(c *Call) error                                          // outcome of a write; nil = success
	OnList  func(list client.ObjectList, opts *client.ListOptions) error // answers List
	Apply   bool                                                         // apply successful writes to Objs (simple store semantics)
	// SpecWriteBumpsGeneration: like the API server, a successful non-dry-run Update or Patch touching spec increments
	// metadata.generation, and the client writes the response back into the object that was passed in.
	SpecWriteBumpsGeneration bool
	// PatchAnswersStored: a successful merge patch is answered with the stored object after the patch - the client
	// decodes that answer into the object handed to Patch, replacing whatever the caller had changed in memory only.
	PatchAnswersStored bool
	// StatusUpdateAnswersStored: a successful update of the status subresource stores the status and is answered with
	// the stored object carrying it - metadata and spec of the object handed in are replaced by what is stored, so
	// anything the caller changed in memory only (outside status) is gone afterwards.
	StatusUpdateAnswersStored bool
	scheme             *runtime.Scheme
}

func NewClient() *Client {
	return &Client{Objs: map[Key]map[string]interface{}{}, GetErr: map[Key]error{}}
}

func (c *Client) Put(obj client.Object) { c.Objs[KeyOf(obj)] = ToMap(obj) }

func NotFound(name string) error {
	return apimachineryerrors.NewNotFound(schema.GroupResource{Resource: "things"}, name)
}
func AlreadyExists(name string) error {
	return apimachineryerrors.NewAlreadyExists(schema.GroupResource{Resource: "things"}, name)
}
func Conflict(name string) error {
	return apimachineryerrors.NewConflict(schema.GroupResource{Resource: "things"}, name, ErrOpaque)
}

func (c *Client) Get(_ context.Context, key client.ObjectKey, obj client.Object, _ ...client.GetOption) error {
	k := Key{Kind: KindOf(obj), Namespace: key.Namespace, Name: key.Name}
	c.Calls = append(c.Calls, Call{Verb: "get", Key: k})
	if e := c.GetErr[k]; e != nil {
		return e
	}
	m, ok := c.Objs[k]
	if !ok {
		return NotFound(key.Name)
	}
	FromMap(m, obj)
	return nil
}

func (c *Client) List(_ context.Context, list client.ObjectList, opts ...client.ListOption) error {
	lo := &client.ListOptions{}
	lo.ApplyOptions(opts)
	c.Calls = append(c.Calls, Call{Verb: "list", Key: Key{Kind: TypeName(list), Namespace: lo.Namespace}})
	if c.OnList != nil {
		return c.OnList(list, lo)
	}
	panic("verifk8s.Client: List without OnList")
}

func (c *Client) record(call Call) error {
	c.Calls = append(c.Calls, call)
	cur := &c.Calls[len(c.Calls)-1]
	if c.Outcome != nil {
		if err := c.Outcome(cur); err != nil {
			return err
		}
	}
	return nil
}

func (c *Client) Create(_ context.Context, obj client.Object, opts ...client.CreateOption) error {
	co := &client.CreateOptions{}
	co.ApplyOptions(opts)
	err := c.record(Call{Verb: "create", Key: KeyOf(obj), Obj: ToMap(obj), DryRun: len(co.DryRun) > 0, FieldMgr: co.FieldManager})
	if err == nil && c.Apply && len(co.DryRun) == 0 {
		c.Objs[KeyOf(obj)] = ToMap(obj)
	}
	return err
}

func (c *Client) Update(_ context.Context, obj client.Object, opts ...client.UpdateOption) error {
	uo := &client.UpdateOptions{}
	uo.ApplyOptions(opts)
	err := c.record(Call{Verb: "update", Key: KeyOf(obj), Obj: ToMap(obj), DryRun: len(uo.DryRun) > 0, FieldMgr: uo.FieldManager})
	if err == nil && c.Apply && len(uo.DryRun) == 0 {
		c.Objs[KeyOf(obj)] = ToMap(obj)
	}
	return err
}

func (c *Client) Patch(_ context.Context, obj client.Object, patch client.Patch, opts ...client.PatchOption) error {
	po := &client.PatchOptions{}
	po.ApplyOptions(opts)
	data, err := patch.Data(obj)
	if err != nil {
		return err
	}
	err = c.record(Call{Verb: "patch", Key: KeyOf(obj), Obj: ToMap(obj), PatchType: patch.Type(), Data: data,
		DryRun: len(po.DryRun) > 0, Force: po.Force != nil && *po.Force, FieldMgr: po.FieldManager})
	if err == nil && c.SpecWriteBumpsGeneration && len(po.DryRun) == 0 && patchTouchesSpec(data) {
		obj.SetGeneration(obj.GetGeneration() + 1)
	}
	if err == nil && c.PatchAnswersStored && len(po.DryRun) == 0 && patch.Type() == types.MergePatchType {
		if stored, ok := c.Objs[KeyOf(obj)]; ok {
			var body map[string]interface{}
			if e := json.Unmarshal(data, &body); e == nil {
				mergeInto(stored, body)
				FromMap(stored, obj)
			}
		}
	}
	return err
}

// mergeInto applies an RFC 7386 merge patch to a JSON object in place.
func mergeInto(dst, patch map[string]interface{}) {
	for k, v := range patch {
		if v == nil {
			delete(dst, k)
			continue
		}
		pm, isMap := v.(map[string]interface{})
		dm, dstIsMap := dst[k].(map[string]interface{})
		if isMap && dstIsMap {
			mergeInto(dm, pm)
			continue
		}
		dst[k] = v
	}
}

func patchTouchesSpec(data []byte) bool {
	var body map[string]interface{}
	if err := json.Unmarshal(data, &body); err != nil {
		return true
	}
	_, has := body["spec"]
	return has
}

func (c *Client) Delete(_ context.Context, obj client.Object, opts ...client.DeleteOption) error {
	do := &client.DeleteOptions{}
	do.ApplyOptions(opts)
	call := Call{Verb: "delete", Key: KeyOf(obj), Obj: ToMap(obj), DryRun: len(do.DryRun) > 0}
	if do.Preconditions != nil {
		call.PreUID = do.Preconditions.UID
		call.PreRV = do.Preconditions.ResourceVersion
	}
	err := c.record(call)
	if err == nil && c.Apply && len(do.DryRun) == 0 {
		delete(c.Objs, KeyOf(obj))
	}
	return err
}

func (c *Client) DeleteAllOf(context.Context, client.Object, ...client.DeleteAllOfOption) error {
	panic("DeleteAllOf is never used by the operator")
}

type statusWriter struct{ c *Client }

func (c *Client) Status() client.SubResourceWriter { return &statusWriter{c} }

func (s *statusWriter) Create(context.Context, client.Object, client.Object, ...client.SubResourceCreateOption) error {
	panic("status create is never used by the operator")
}

func (s *statusWriter) Update(_ context.Context, obj client.Object, _ ...client.SubResourceUpdateOption) error {
	err := s.c.record(Call{Verb: "status-update", Key: KeyOf(obj), Obj: ToMap(obj)})
	if err == nil && s.c.StatusUpdateAnswersStored {
		if stored, ok := s.c.Objs[KeyOf(obj)]; ok {
			if st, has := ToMap(obj)["status"]; has {
				stored["status"] = st
			}
			FromMap(stored, obj)
		}
	}
	return err
}

func (s *statusWriter) Patch(_ context.Context, obj client.Object, patch client.Patch, _ ...client.SubResourcePatchOption) error {
	data, err := patch.Data(obj)
	if err != nil {
		return err
	}
	return s.c.record(Call{Verb: "status-patch", Key: KeyOf(obj), Obj: ToMap(obj), PatchType: patch.Type(), Data: data})
}

func (c *Client) SubResource(string) client.SubResourceClient { panic("SubResource not supported") }
func (c *Client) Scheme() *runtime.Scheme                     { return c.scheme }
func (c *Client) RESTMapper() meta.RESTMapper                 { panic("RESTMapper not supported") }
func (c *Client) GroupVersionKindFor(runtime.Object) (schema.GroupVersionKind, error) {
	panic("GroupVersionKindFor not supported")
}
func (c *Client) IsObjectNamespaced(runtime.Object) (bool, error) {
	panic("IsObjectNamespaced not supported")
}

// Writes returns the non-dry-run writes.
func (c *Client) Writes() []Call {
	var out []Call
	for _, x := range c.Calls {
		if x.IsWrite() && !x.DryRun {
			out = append(out, x)
		}
	}
	return out
}

// Cache is a dynamic-cache double: a reader plus Watch/Free recording.
type Cache struct {
	*Client
	Watched           []string
	Freed             []Key
	WatchErr, FreeErr error
}

func NewCache() *Cache { return &Cache{Client: NewClient()} }

func (c *Cache) Watch(_ context.Context, _ client.Object, obj runtime.Object) error {
	c.Watched = append(c.Watched, KindOf(obj))
	return c.WatchErr
}

func (c *Cache) Free(_ context.Context, obj client.Object) error {
	c.Freed = append(c.Freed, KeyOf(obj))
	c.Calls = append(c.Calls, Call{Verb: "free", Key: KeyOf(obj)})
	return c.FreeErr
}

// IsRealWrite: a call that changes cluster state.
func (c Call) IsRealWrite() bool {
	switch c.Verb {
	case "create", "update", "patch", "delete", "status-update", "status-patch":
		return !c.DryRun
	}
	return false
}
