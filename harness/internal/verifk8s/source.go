package verifk8s

import (
	"sigs.k8s.io/controller-runtime/pkg/handler"
	"sigs.k8s.io/controller-runtime/pkg/predicate"
	"sigs.k8s.io/controller-runtime/pkg/source"
)

// Source is never used by a reconcile pass; present to satisfy the controllers' dynamicCache interfaces.
func (c *Cache) Source(handler.EventHandler, ...predicate.Predicate) source.Source { return nil }
