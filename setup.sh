#!/bin/sh
# builds the symbolic executor offline from /verif/engine
cd "$(dirname "$0")/engine" || exit 2
mkdir -p ../bin
GOFLAGS=-mod=mod GOPROXY=off GOSUMDB=off GOTOOLCHAIN=local go build -o ../bin/symgo ./cmd/symgo
